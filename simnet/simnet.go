// Package simnet is the simulated transport to gripper table plugins: an
// in-process implementation of the repository's own gripper.GRIPSourceClient
// interface, wired to a real gripper.GRIPSourceServer (SimpleTableServicer)
// running as one simulated goroutine per stream. Delivery is FIFO and
// reliable per stream (what gRPC promises); every message hand-off is a
// scheduler yield point, optionally delayed on the simulated clock, so streams
// of different tables overtake one another freely. No sockets exist.
package simnet

import (
	"context"
	"io"
	"time"

	"github.com/bmeg/grip/gripper"
	"google.golang.org/grpc"
	"google.golang.org/grpc/metadata"
	"verifsim/simrt"
)

// Client implements gripper.GRIPSourceClient over an in-process server.
type Client struct {
	Server  gripper.GRIPSourceServer
	Latency func() time.Duration // optional per-message latency (simulated clock)
	Stats   *Stats
}

type Stats struct {
	Streams  int
	Messages int
}

func (c *Client) delay() {
	if c.Latency != nil {
		if d := c.Latency(); d > 0 {
			simrt.Yield("simnet:latency")
			time.Sleep(d)
		}
	}
}

func (c *Client) count(streams, msgs int) {
	if c.Stats != nil {
		c.Stats.Streams += streams
		c.Stats.Messages += msgs
	}
}

// stream is one direction-agnostic in-process stream.
type stream struct {
	ctx  context.Context
	c    *Client
	down chan interface{} // server -> client
	up   chan interface{} // client -> server (bidi only)
}

func (s *stream) Header() (metadata.MD, error) { return nil, nil }
func (s *stream) Trailer() metadata.MD          { return nil }
func (s *stream) CloseSend() error {
	if s.up != nil {
		simrt.Yield("simnet:close-send")
		close(s.up)
	}
	return nil
}
func (s *stream) Context() context.Context      { return s.ctx }
func (s *stream) SendMsg(m interface{}) error   { return nil }
func (s *stream) RecvMsg(m interface{}) error   { return io.EOF }
func (s *stream) SetHeader(metadata.MD) error   { return nil }
func (s *stream) SendHeader(metadata.MD) error  { return nil }
func (s *stream) SetTrailer(metadata.MD)        {}

func (s *stream) srvSend(m interface{}) error {
	s.c.delay()
	simrt.Yield("simnet:server-send")
	s.down <- m
	s.c.count(0, 1)
	return nil
}

func (s *stream) cliRecv() (interface{}, error) {
	simrt.Yield("simnet:client-recv")
	m, ok := <-s.down
	if !ok {
		return nil, io.EOF
	}
	return m, nil
}

func (c *Client) newStream(ctx context.Context, bidi bool) *stream {
	s := &stream{ctx: ctx, c: c, down: make(chan interface{}, 4)}
	if bidi {
		s.up = make(chan interface{}, 4)
	}
	c.count(1, 0)
	return s
}

// --- typed wrappers ----------------------------------------------------------

type collStream struct{ *stream }

func (s collStream) Recv() (*gripper.Collection, error) {
	m, err := s.cliRecv()
	if err != nil {
		return nil, err
	}
	return m.(*gripper.Collection), nil
}
func (s collStream) Send(m *gripper.Collection) error { return s.srvSend(m) }

type idStream struct{ *stream }

func (s idStream) Recv() (*gripper.RowID, error) {
	m, err := s.cliRecv()
	if err != nil {
		return nil, err
	}
	return m.(*gripper.RowID), nil
}
func (s idStream) Send(m *gripper.RowID) error { return s.srvSend(m) }

type rowStream struct{ *stream }

func (s rowStream) Recv() (*gripper.Row, error) {
	m, err := s.cliRecv()
	if err != nil {
		return nil, err
	}
	return m.(*gripper.Row), nil
}
func (s rowStream) Send(m *gripper.Row) error { return s.srvSend(m) }

// bidi: client side
type byIDClient struct{ *stream }

func (s byIDClient) Send(m *gripper.RowRequest) error {
	s.c.delay()
	simrt.Yield("simnet:client-send")
	s.up <- m
	s.c.count(0, 1)
	return nil
}
func (s byIDClient) Recv() (*gripper.Row, error) {
	m, err := s.cliRecv()
	if err != nil {
		return nil, err
	}
	return m.(*gripper.Row), nil
}

// bidi: server side
type byIDServer struct{ *stream }

func (s byIDServer) Send(m *gripper.Row) error { return s.srvSend(m) }
func (s byIDServer) Recv() (*gripper.RowRequest, error) {
	simrt.Yield("simnet:server-recv")
	m, ok := <-s.up
	if !ok {
		return nil, io.EOF
	}
	return m.(*gripper.RowRequest), nil
}

func (c *Client) finish(s *stream) {
	simrt.Yield("simnet:server-close")
	close(s.down)
}

func (c *Client) GetCollections(ctx context.Context, in *gripper.Empty, opts ...grpc.CallOption) (gripper.GRIPSource_GetCollectionsClient, error) {
	s := c.newStream(ctx, false)
	simrt.Go("simnet:GetCollections", func() {
		defer c.finish(s)
		c.Server.GetCollections(in, collStream{s})
	})
	return collStream{s}, nil
}

func (c *Client) GetCollectionInfo(ctx context.Context, in *gripper.Collection, opts ...grpc.CallOption) (*gripper.CollectionInfo, error) {
	c.delay()
	return c.Server.GetCollectionInfo(ctx, in)
}

func (c *Client) GetIDs(ctx context.Context, in *gripper.Collection, opts ...grpc.CallOption) (gripper.GRIPSource_GetIDsClient, error) {
	s := c.newStream(ctx, false)
	simrt.Go("simnet:GetIDs", func() {
		defer c.finish(s)
		c.Server.GetIDs(in, idStream{s})
	})
	return idStream{s}, nil
}

func (c *Client) GetRows(ctx context.Context, in *gripper.Collection, opts ...grpc.CallOption) (gripper.GRIPSource_GetRowsClient, error) {
	s := c.newStream(ctx, false)
	simrt.Go("simnet:GetRows", func() {
		defer c.finish(s)
		c.Server.GetRows(in, rowStream{s})
	})
	return rowStream{s}, nil
}

func (c *Client) GetRowsByID(ctx context.Context, opts ...grpc.CallOption) (gripper.GRIPSource_GetRowsByIDClient, error) {
	s := c.newStream(ctx, true)
	simrt.Go("simnet:GetRowsByID", func() {
		defer c.finish(s)
		c.Server.GetRowsByID(byIDServer{s})
	})
	return byIDClient{s}, nil
}

func (c *Client) GetRowsByField(ctx context.Context, in *gripper.FieldRequest, opts ...grpc.CallOption) (gripper.GRIPSource_GetRowsByFieldClient, error) {
	s := c.newStream(ctx, false)
	simrt.Go("simnet:GetRowsByField", func() {
		defer c.finish(s)
		c.Server.GetRowsByField(in, rowStream{s})
	})
	return rowStream{s}, nil
}

var _ gripper.GRIPSourceClient = (*Client)(nil)
