#!/usr/bin/env python3
"""Collect seeded-change trial results.

usage: seedresults.py <phase> <logfile>...
Each log line (from tools/seedrun.sh):
  seeded=<id> check=<PROP> exit=<rc> [VIOLATION ...] [signature: <sig>]
Results are accumulated in /verif/seeded/<id>/result.json:
  {"trials":[{"phase":..., "check":..., "exit":..., "signature":...}]}
Later phases (after a check was strengthened) are appended, not overwritten.
"""
import json, os, re, sys
phase = sys.argv[1]
for log in sys.argv[2:]:
    for line in open(log):
        m = re.match(r'seeded=(\S+) check=(\S+) exit=(\d+)(.*)', line.strip())
        if not m:
            continue
        sid, check, rc, rest = m.group(1), m.group(2), int(m.group(3)), m.group(4)
        sig = ''
        ms = re.search(r'signature: (.*)$', rest)
        if ms:
            sig = ms.group(1).strip()
        p = '/verif/seeded/%s/result.json' % sid
        d = {"trials": []}
        if os.path.exists(p):
            d = json.load(open(p))
        t = {"phase": phase, "check": check, "exit": rc, "signature": sig}
        if t not in d["trials"]:
            d["trials"].append(t)
        json.dump(d, open(p, 'w'), indent=1)
