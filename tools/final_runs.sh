#!/bin/bash
# Final evidence: for every claimed property the quick tier, then the thorough
# tier, on the unchanged /repo tree; evidence/<id>.json is left by the thorough
# run. Logs under /verif/.cache/final/.
cd /verif
export GOFLAGS=-mod=mod GOPROXY=off GOSUMDB=off GOTOOLCHAIN=local
mkdir -p .cache/final
for p in ${PROPS:-C13 C07 C12 C01 C02 C03 C04 C16 C09 C19 C18 C06 C17 C11 C15 C10}; do
  for tier in quick thorough; do
    s=$(date +%s)
    VERIF_SEED=${VERIF_SEED:-1} bin/vsim check $p --tier $tier > .cache/final/${p}_$tier.log 2>&1
    rc=$?
    echo "$(date +%H:%M) $p $tier exit=$rc $(( $(date +%s)-s ))s known=$(grep -c '^KNOWN-FINDING' .cache/final/${p}_$tier.log) $(grep '^property=' .cache/final/${p}_$tier.log | cut -c1-200)"
    if [ $tier = quick ]; then cp evidence/$p.json .cache/final/${p}_quick_evidence.json 2>/dev/null; fi
  done
done
