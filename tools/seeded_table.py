#!/usr/bin/env python3
"""Render DESIGN.md §15 from /verif/seeded/*/{meta.json,result.json}."""
import json, os, glob, re
rows = []
for d in sorted(glob.glob('/verif/seeded/*/')):
    sid = os.path.basename(d.rstrip('/'))
    meta = json.load(open(d + 'meta.json'))
    res = {"trials": []}
    if os.path.exists(d + 'result.json'):
        res = json.load(open(d + 'result.json'))
    files = ', '.join(meta.get('files_changed', []))
    summ = re.sub(r'\s+', ' ', meta.get('summary', ''))
    if len(summ) > 260:
        summ = summ[:257] + '...'
    first, later = {}, {}
    for t in res['trials']:
        tgt = first if t['phase'].startswith('first') else later
        tgt[t['check']] = t
    def fmt(m):
        out = []
        for c in sorted(m):
            t = m[c]
            if t['exit'] == 1:
                out.append('**%s** `%s`' % (c, t['signature'][:80]))
            elif t['exit'] == 0:
                out.append('%s missed' % c)
            else:
                out.append('%s infra(exit %d)' % (c, t['exit']))
        return '; '.join(out) if out else '-'
    caught = any(t['exit'] == 1 for t in res['trials'])
    rows.append((sid, files, summ, fmt(first), fmt(later), 'yes' if caught else 'NO'))
print('| seeded change | files | what it does | first trial (quick tier) | after strengthening | caught |')
print('|---|---|---|---|---|---|')
for r in rows:
    print('| %s | %s | %s | %s | %s | %s |' % tuple(x.replace('|', '\\|') for x in r))
print()
print('%d seeded changes, %d caught by at least one check.' % (len(rows), sum(1 for r in rows if r[5] == 'yes')))
