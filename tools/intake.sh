#!/bin/bash
# tools/intake.sh <PROP> <A|B> <slug> <demo-dest-relative-path> <go-test-package-or-cmd> [CHECK...]
# Intake of a seeded change delivered by a sub-agent under /tmp/sw/<PROP>-out/<X>/:
# confirms in the agent's scratch worktree (/tmp/sw/<PROP>, never /repo) that the
# tree builds with the patch, that the demonstration fails with it and passes
# without it, stores it under /verif/seeded/<PROP>-<letter>-<slug>/ and runs the
# named checks against it (tools/seedrun.sh, quick tier).
set -u
P=$1; X=$2; slug=$3; dest=$4; pkg=$5; shift 5
src=/tmp/sw/$P-out/$X; wt=/tmp/sw/$P
export GOFLAGS=-mod=mod GOPROXY=off GOSUMDB=off
[ -f $src/patch.diff ] || { echo "no patch"; exit 2; }
last=$(ls /verif/seeded | grep "^$P-" | sed "s/^$P-\(.\)-.*/\1/" | sort | tail -1)
letter=$(echo "$last" | tr 'A-Y' 'B-Z')
id=$P-$letter-$slug
git -C $wt checkout -q -- . ; git -C $wt clean -fdq
git -C $wt apply $src/patch.diff || { echo "patch does not apply in worktree"; exit 2; }
mkdir -p $(dirname $wt/$dest)
demo=$(ls $src/demo_test.go $src/demo/main.go 2>/dev/null | head -1)
cp $demo $wt/$dest
( cd $wt && go build ./$(dirname $(git -C $wt diff --name-only | head -1))/ ) || { echo "does not build"; exit 2; }
( cd $wt && timeout 900 go test -vet=off -count=1 $pkg > /tmp/sw/$P-$X-with.log 2>&1 ); with=$?
git -C $wt checkout -q -- .
( cd $wt && timeout 900 go test -vet=off -count=1 $pkg > /tmp/sw/$P-$X-without.log 2>&1 ); without=$?
git -C $wt clean -fdq
echo "intake $id: demo with change exit=$with (want !=0), without exit=$without (want 0)"
if [ $with -eq 0 ] || [ $without -ne 0 ]; then echo "NOT CONFIRMED"; tail -5 /tmp/sw/$P-$X-with.log /tmp/sw/$P-$X-without.log; exit 1; fi
mkdir -p /verif/seeded/$id
cp $src/patch.diff /verif/seeded/$id/patch.diff
cp $demo /verif/seeded/$id/$(basename $demo)
jq --arg d "$dest" --arg p "$pkg" --arg w "$with" '. + {intake: {demo_dest: $d, demo_cmd: ("go test -vet=off -count=1 " + $p), demo_exit_with_change: ($w|tonumber), demo_exit_without_change: 0, confirmed_in: "scratch worktree of /repo, by tools/intake.sh"}}' $src/meta.json > /verif/seeded/$id/meta.json
for c in "$@"; do SEED_REPO=/tmp/seedrepo-$id /verif/tools/seedrun.sh $id $c; done 2>&1 | tee /tmp/sw/$id-trial.log
python3 /verif/tools/trial2result.py $id first-run /tmp/sw/$id-trial.log
rm -rf /tmp/seedrepo-$id
