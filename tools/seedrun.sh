#!/bin/bash
# tools/seedrun.sh <seeded-id> <PROP> [<PROP>...]
# Applies /verif/seeded/<id>/patch.diff to /repo, runs the named checks (quick
# tier unless TIER is set) with evidence and replays redirected to a scratch
# directory, restores /repo, and prints one line per check.
set -u
id=$1; shift
patch=/verif/seeded/$id/patch.diff
out=${SEED_OUT:-/tmp/seedout}/$id
mkdir -p "$out"
export GOFLAGS=-mod=mod GOPROXY=off GOSUMDB=off GOTOOLCHAIN=local
if [ -n "$(git -C /repo status --porcelain --untracked-files=no)" ]; then echo "/repo is dirty"; exit 2; fi
git -C /repo apply "$patch" || { echo "patch does not apply"; exit 2; }
for p in "$@"; do
  VSIM_OUT="$out" /verif/bin/vsim check "$p" --tier "${TIER:-quick}" > "$out/$p.log" 2>&1
  rc=$?
  echo "seeded=$id check=$p exit=$rc $(grep -m1 '^VIOLATION' "$out/$p.log") $(grep -m1 'signature:' "$out/$p.log")"
done
git -C /repo checkout -- .
