#!/bin/bash
# tools/seedrun.sh <seeded-id> <PROP> [<PROP>...]
# Trial of a seeded (deliberately broken) change: a scratch clone of /repo at
# its HEAD (default /tmp/seedrepo, override SEED_REPO) gets
# /verif/seeded/<id>/patch.diff applied, the named checks run against that
# clone (VSIM_REPO) at the quick tier unless TIER is set, with evidence and
# replays redirected to a scratch directory (VSIM_OUT) so that the evidence of
# the unchanged tree is not replaced. /repo itself is never touched.
set -u
id=$1; shift
patch=/verif/seeded/$id/patch.diff
repo=${SEED_REPO:-/tmp/seedrepo}
out=${SEED_OUT:-/tmp/seedout}/$id
mkdir -p "$out"
export GOFLAGS=-mod=mod GOPROXY=off GOSUMDB=off GOTOOLCHAIN=local
head=$(git -C /repo rev-parse HEAD)
if [ ! -d "$repo/.git" ]; then rm -rf "$repo"; git clone -q /repo "$repo" || exit 2; fi
git -C "$repo" fetch -q /repo HEAD && git -C "$repo" checkout -q --detach "$head" && git -C "$repo" reset -q --hard "$head" && git -C "$repo" clean -fdq || { echo "cannot refresh $repo"; exit 2; }
git -C "$repo" apply "$patch" || { echo "seeded=$id patch does not apply"; exit 2; }
for p in "$@"; do
  VSIM_REPO="$repo" VSIM_OUT="$out" /verif/bin/vsim check "$p" --tier "${TIER:-quick}" > "$out/$p.log" 2>&1
  rc=$?
  echo "seeded=$id check=$p exit=$rc $(grep -m1 '^VIOLATION' "$out/$p.log") $(grep -m1 'signature:' "$out/$p.log")"
done
git -C "$repo" reset -q --hard "$head"
