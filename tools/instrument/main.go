// instrument rewrites the in-scope packages of the bmeg/grip working tree so
// that every synchronisation point calls into verifsim/simrt, and writes the
// result as a `go build -overlay` map. /repo itself is never modified.
package main

import (
	"bytes"
	"crypto/sha256"
	"encoding/hex"
	"encoding/json"
	"flag"
	"fmt"
	"go/ast"
	"go/format"
	"go/parser"
	"go/token"
	"go/types"
	"os"
	"path/filepath"
	"sort"
	"strings"

	"golang.org/x/tools/go/ast/astutil"
	"golang.org/x/tools/go/packages"
)

var simPath = flag.String("sim", "verifsim/simrt", "import path of simrt")
var hooksPath = flag.String("hooks", "verifsim/simhooks", "import path of simhooks")
var outDir = flag.String("out", "", "output dir (outside /repo and /verif)")
var dir = flag.String("dir", "/repo", "module dir")
var tags = flag.String("tags", "verif", "build tags")

// packages whose file operations become crash points
var ioPkgs = map[string]bool{"github.com/bmeg/grip/jobstorage": true}

type report struct {
	Files         int      `json:"files"`
	Sites         int      `json:"sites"`
	ByKind        map[string]int `json:"by_kind"`
	Uninstrumented []string `json:"uninstrumented_sites"`
	Digest        string   `json:"digest"`
}

func main() {
	flag.Parse()
	pats := flag.Args()
	if *outDir == "" {
		fmt.Fprintln(os.Stderr, "need -out")
		os.Exit(2)
	}
	cfg := &packages.Config{
		Mode:       packages.NeedName | packages.NeedFiles | packages.NeedSyntax | packages.NeedTypes | packages.NeedTypesInfo | packages.NeedImports | packages.NeedDeps | packages.NeedCompiledGoFiles,
		Dir:        *dir,
		Env:        os.Environ(),
		BuildFlags: []string{"-tags", *tags},
	}
	pkgs, err := packages.Load(cfg, pats...)
	if err != nil {
		fmt.Fprintf(os.Stderr, "instrument: load: %v\n", err)
		os.Exit(2)
	}
	overlay := map[string]string{}
	os.MkdirAll(*outDir, 0755)
	n := 0
	rep := report{ByKind: map[string]int{}}
	h := sha256.New()
	sort.Slice(pkgs, func(i, j int) bool { return pkgs[i].PkgPath < pkgs[j].PkgPath })
	for _, p := range pkgs {
		if len(p.Errors) > 0 {
			fmt.Fprintf(os.Stderr, "instrument: package %s does not type-check: %v\n", p.PkgPath, p.Errors)
			os.Exit(2)
		}
		for i, f := range p.Syntax {
			fn := p.CompiledGoFiles[i]
			if strings.HasSuffix(fn, "_test.go") || strings.HasSuffix(fn, ".pb.go") || strings.HasSuffix(fn, ".pb.gw.go") || strings.HasSuffix(fn, ".pb.dgw.go") {
				continue
			}
			rw := &rewriter{fset: p.Fset, info: p.TypesInfo, pkg: p.PkgPath, file: filepath.Base(fn), rep: &rep}
			changed := rw.file_(f)
			if !changed {
				continue
			}
			if rw.usedSim {
				astutil.AddNamedImport(p.Fset, f, "simrt", *simPath)
			}
			if rw.usedHooks {
				astutil.AddNamedImport(p.Fset, f, "simhooks", *hooksPath)
			}
			for _, imp := range []string{"io/ioutil", "github.com/bmeg/grip/kvi/badgerdb", "github.com/segmentio/ksuid", "sync"} {
				if !astutil.UsesImport(f, imp) {
					astutil.DeleteImport(p.Fset, f, imp)
				}
			}
			f.Comments = nil
			var buf bytes.Buffer
			if err := format.Node(&buf, p.Fset, f); err != nil {
				fmt.Fprintf(os.Stderr, "instrument: %s: %v\n", fn, err)
				os.Exit(2)
			}
			out := filepath.Join(*outDir, fmt.Sprintf("%04d_%s", n, filepath.Base(fn)))
			n++
			if err := os.WriteFile(out, buf.Bytes(), 0644); err != nil {
				fmt.Fprintf(os.Stderr, "instrument: %v\n", err)
				os.Exit(2)
			}
			overlay[fn] = out
			h.Write([]byte(fn))
			h.Write(buf.Bytes())
			rep.Files++
		}
	}
	rep.Digest = hex.EncodeToString(h.Sum(nil))[:16]
	b, _ := json.MarshalIndent(map[string]interface{}{"Replace": overlay}, "", " ")
	os.WriteFile(filepath.Join(*outDir, "overlay.json"), b, 0644)
	sort.Strings(rep.Uninstrumented)
	rb, _ := json.MarshalIndent(rep, "", " ")
	os.WriteFile(filepath.Join(*outDir, "report.json"), rb, 0644)
	fmt.Printf("instrumented %d files, %d sites, digest %s\n", rep.Files, rep.Sites, rep.Digest)
}

type rewriter struct {
	fset      *token.FileSet
	info      *types.Info
	pkg       string
	file      string
	sites     int
	tmp       int
	usedSim   bool
	usedHooks bool
	rep       *report
	synth     map[ast.Stmt]bool
	funcs     []funcRange
	ord       map[string]int
}

func (r *rewriter) mark(s ast.Stmt) ast.Stmt {
	if r.synth == nil {
		r.synth = map[ast.Stmt]bool{}
	}
	r.synth[s] = true
	return s
}

func (r *rewriter) short() string { return r.pkg[strings.LastIndex(r.pkg, "/")+1:] }

// site names a synchronisation point by its enclosing function and the ordinal
// of that kind of operation inside it (stable under edits elsewhere in the
// file, unlike line numbers): "core/processors.go:both.Process:send#3".
func (r *rewriter) site(n ast.Node, kind string) *ast.BasicLit {
	r.sites++
	r.rep.Sites++
	r.rep.ByKind[kind]++
	r.usedSim = true
	fn := "init"
	for _, d := range r.funcs {
		if n.Pos() >= d.pos && n.Pos() <= d.end {
			fn = d.name
		}
	}
	if r.ord == nil {
		r.ord = map[string]int{}
	}
	r.ord[fn+":"+kind]++
	return &ast.BasicLit{Kind: token.STRING, Value: fmt.Sprintf("%q", fmt.Sprintf("%s/%s:%s:%s#%d", r.short(), r.file, fn, kind, r.ord[fn+":"+kind]))}
}

type funcRange struct {
	name     string
	pos, end token.Pos
}

func (r *rewriter) indexFuncs(f *ast.File) {
	for _, d := range f.Decls {
		fd, ok := d.(*ast.FuncDecl)
		if !ok {
			continue
		}
		name := fd.Name.Name
		if fd.Recv != nil && len(fd.Recv.List) > 0 {
			t := fd.Recv.List[0].Type
			if st, ok := t.(*ast.StarExpr); ok {
				t = st.X
			}
			if id, ok := t.(*ast.Ident); ok {
				name = id.Name + "." + name
			}
		}
		r.funcs = append(r.funcs, funcRange{name, fd.Pos(), fd.End()})
	}
}

func (r *rewriter) skip(n ast.Node, why string) {
	pos := r.fset.Position(n.Pos())
	r.rep.Uninstrumented = append(r.rep.Uninstrumented, fmt.Sprintf("%s/%s:%d:%s", r.short(), r.file, pos.Line, why))
}

func (r *rewriter) fresh(prefix string) *ast.Ident {
	r.tmp++
	return ast.NewIdent(fmt.Sprintf("_sim%s%d", prefix, r.tmp))
}

func simCall(name string, args ...ast.Expr) *ast.CallExpr {
	return &ast.CallExpr{Fun: &ast.SelectorExpr{X: ast.NewIdent("simrt"), Sel: ast.NewIdent(name)}, Args: args}
}

func (r *rewriter) yieldStmt(n ast.Node, kind string) ast.Stmt {
	if kind == "io" {
		return &ast.ExprStmt{X: simCall("IOPoint", r.site(n, kind))}
	}
	return &ast.ExprStmt{X: simCall("Yield", r.site(n, kind))}
}

func progressStmt() ast.Stmt { return &ast.ExprStmt{X: simCall("Progress")} }

func (r *rewriter) isChan(e ast.Expr) bool {
	t := r.info.TypeOf(e)
	if t == nil {
		return false
	}
	_, ok := t.Underlying().(*types.Chan)
	return ok
}

func (r *rewriter) isMap(e ast.Expr) bool {
	t := r.info.TypeOf(e)
	if t == nil {
		return false
	}
	_, ok := t.Underlying().(*types.Map)
	return ok
}

// method returns the full name of the method a selector call resolves to,
// e.g. "(*sync.Mutex).Lock".
func (r *rewriter) method(sel *ast.SelectorExpr) string {
	if s, ok := r.info.Selections[sel]; ok {
		if f, ok := s.Obj().(*types.Func); ok {
			return f.FullName()
		}
	}
	return ""
}

// pkgFunc returns "pkgpath.Name" for a call to a package-level function.
func (r *rewriter) pkgFunc(fun ast.Expr) string {
	sel, ok := fun.(*ast.SelectorExpr)
	if !ok {
		return ""
	}
	if obj, ok := r.info.Uses[sel.Sel]; ok {
		if f, ok := obj.(*types.Func); ok && f.Pkg() != nil {
			if sig, ok := f.Type().(*types.Signature); ok && sig.Recv() == nil {
				return f.Pkg().Path() + "." + f.Name()
			}
		}
	}
	return ""
}

func isDoneCall(e ast.Expr) bool {
	if u, ok := e.(*ast.UnaryExpr); ok && u.Op == token.ARROW {
		if c, ok := u.X.(*ast.CallExpr); ok {
			if s, ok := c.Fun.(*ast.SelectorExpr); ok && s.Sel.Name == "Done" {
				return true
			}
		}
	}
	return false
}

// stmtOps reports the kind of synchronisation operation directly inside stmt
// (not in nested blocks or function literals), "" if none.
func (r *rewriter) stmtOps(s ast.Stmt) string {
	switch x := s.(type) {
	case *ast.SelectStmt:
		return "select"
	case *ast.IfStmt:
		if x.Init != nil {
			if k := r.exprOps(x.Init); k != "" {
				return k
			}
		}
		return r.exprOps(x.Cond)
	case *ast.SwitchStmt:
		if x.Init != nil {
			if k := r.exprOps(x.Init); k != "" {
				return k
			}
		}
		if x.Tag != nil {
			return r.exprOps(x.Tag)
		}
		return ""
	case *ast.BlockStmt, *ast.ForStmt, *ast.RangeStmt, *ast.TypeSwitchStmt, *ast.LabeledStmt, *ast.GoStmt, *ast.DeferStmt, *ast.CommClause, *ast.CaseClause:
		return ""
	}
	return r.exprOps(s)
}

func (r *rewriter) exprOps(n ast.Node) string {
	kind := ""
	if n == nil {
		return ""
	}
	ast.Inspect(n, func(x ast.Node) bool {
		switch y := x.(type) {
		case *ast.FuncLit:
			return false
		case *ast.SendStmt:
			kind = "send"
		case *ast.UnaryExpr:
			if y.Op == token.ARROW {
				kind = "recv"
			}
		case *ast.CallExpr:
			if id, ok := y.Fun.(*ast.Ident); ok && id.Name == "close" && len(y.Args) == 1 && r.isChan(y.Args[0]) {
				kind = "close"
			}
			if sel, ok := y.Fun.(*ast.SelectorExpr); ok {
				switch r.method(sel) {
				case "(*sync.WaitGroup).Wait", "(*golang.org/x/sync/errgroup.Group).Wait":
					kind = "wait"
				}
				if ioPkgs[r.pkg] && kind == "" {
					pf := r.pkgFunc(y.Fun)
					if strings.HasPrefix(pf, "os.") && pf != "os.IsNotExist" && pf != "os.IsExist" {
						kind = "io"
					}
					if m := r.method(sel); strings.HasPrefix(m, "(*os.File).") {
						kind = "io"
					}
				}
			}
		}
		return true
	})
	return kind
}

func (r *rewriter) file_(f *ast.File) bool {
	r.indexFuncs(f)
	before := r.sites
	changed := false
	// seam: util.UUID
	if r.pkg == "github.com/bmeg/grip/util" {
		for _, d := range f.Decls {
			if fd, ok := d.(*ast.FuncDecl); ok && fd.Recv == nil && fd.Name.Name == "UUID" && fd.Body != nil {
				pro := parseStmts(`if s, ok := simrt.UUID(); ok { return s }`)
				fd.Body.List = append(pro, fd.Body.List...)
				r.usedSim = true
				changed = true
			}
		}
	}
	// expression-level rewrites first (they do not add statements)
	astutil.Apply(f, func(c *astutil.Cursor) bool {
		switch x := c.Node().(type) {
		case *ast.SelectorExpr:
			// seam: sync.Pool (per-P caches, emptied by the collector: which Get
			// meets which Put is not decided by the code) becomes a LIFO pool
			if tn, ok := r.info.Uses[x.Sel].(*types.TypeName); ok && tn.Pkg() != nil && tn.Pkg().Path() == "sync" && tn.Name() == "Pool" {
				c.Replace(&ast.SelectorExpr{X: ast.NewIdent("simrt"), Sel: ast.NewIdent("Pool")})
				r.usedSim = true
				changed = true
				return false
			}
		case *ast.CallExpr:
			// make(chan T, K)
			if id, ok := x.Fun.(*ast.Ident); ok && id.Name == "make" && len(x.Args) == 2 && r.isChanTypeExpr(x.Args[0]) {
				if lit, ok := x.Args[1].(*ast.BasicLit); !(ok && lit.Value == "0") {
					x.Args[1] = simCall("Cap", r.site(x, "cap"), x.Args[1])
				}
			}
			switch r.pkgFunc(x.Fun) {
			case "io/ioutil.TempDir", "os.MkdirTemp":
				x.Fun = &ast.SelectorExpr{X: ast.NewIdent("simrt"), Sel: ast.NewIdent("TempDir")}
				r.usedSim = true
				changed = true
			case "github.com/bmeg/grip/kvi/badgerdb.NewKVInterface":
				if r.pkg == "github.com/bmeg/grip/engine" {
					x.Fun = &ast.SelectorExpr{X: ast.NewIdent("simhooks"), Sel: ast.NewIdent("NewTempKV")}
					r.usedHooks = true
					changed = true
				}
			}
			if sel, ok := x.Fun.(*ast.SelectorExpr); ok {
				switch r.method(sel) {
				case "(*golang.org/x/sync/errgroup.Group).Go":
					if len(x.Args) == 1 {
						x.Args[0] = simCall("Wrap", r.site(x, "errgroup-go"), x.Args[0])
					}
				case "(*os.File).Write":
					// file writes of the job store go through a seam that can
					// make them fail (disk full) and is a crash/yield point
					if ioPkgs[r.pkg] && len(x.Args) == 1 {
						c.Replace(simCall("FileWrite", r.site(x, "io"), sel.X, x.Args[0]))
						r.usedSim = true
						changed = true
					}
				case "(*sync.Map).Range":
					if len(x.Args) == 1 {
						recv := sel.X
						if _, isPtr := r.info.TypeOf(recv).(*types.Pointer); !isPtr {
							recv = &ast.UnaryExpr{Op: token.AND, X: recv}
						}
						c.Replace(simCall("RangeSyncMap", recv, x.Args[0]))
						r.usedSim = true
						changed = true
					}
				}
			}
		}
		return true
	}, nil)
	ast.Inspect(f, func(n ast.Node) bool {
		switch x := n.(type) {
		case *ast.BlockStmt:
			x.List = r.list(x.List)
		case *ast.CaseClause:
			x.Body = r.list(x.Body)
		case *ast.CommClause:
			x.Body = r.list(x.Body)
			if x.Comm != nil && !r.commIsDone(x.Comm) {
				x.Body = append([]ast.Stmt{progressStmt()}, x.Body...)
				r.usedSim = true
			}
		}
		return true
	})
	return changed || r.sites > before
}

func (r *rewriter) commIsDone(s ast.Stmt) bool {
	switch x := s.(type) {
	case *ast.ExprStmt:
		return isDoneCall(x.X)
	case *ast.AssignStmt:
		if len(x.Rhs) == 1 {
			return isDoneCall(x.Rhs[0])
		}
	}
	return false
}

func parseStmts(src string) []ast.Stmt {
	f, err := parser.ParseFile(token.NewFileSet(), "", "package p\nfunc _() {\n"+src+"\n}", 0)
	if err != nil {
		panic(err)
	}
	body := f.Decls[0].(*ast.FuncDecl).Body.List
	// strip positions so the printer lays the statements out afresh
	for _, s := range body {
		ast.Inspect(s, func(n ast.Node) bool { clearPos(n); return true })
	}
	return body
}

func clearPos(n ast.Node) {
	switch x := n.(type) {
	case *ast.Ident:
		x.NamePos = 0
	case *ast.BasicLit:
		x.ValuePos = 0
	case *ast.IfStmt:
		x.If = 0
	case *ast.BlockStmt:
		x.Lbrace, x.Rbrace = 0, 0
	case *ast.ReturnStmt:
		x.Return = 0
	case *ast.AssignStmt:
		x.TokPos = 0
	case *ast.CallExpr:
		x.Lparen, x.Rparen = 0, 0
	}
}

func (r *rewriter) isChanTypeExpr(e ast.Expr) bool {
	if tv, ok := r.info.Types[e]; ok && tv.IsType() {
		_, ok := tv.Type.Underlying().(*types.Chan)
		return ok
	}
	return false
}

// lockCall recognises `x.Lock()` / `x.RLock()` on sync mutexes.
func (r *rewriter) lockCall(s ast.Stmt) (ast.Stmt, bool) {
	es, ok := s.(*ast.ExprStmt)
	if !ok {
		return nil, false
	}
	call, ok := es.X.(*ast.CallExpr)
	if !ok || len(call.Args) != 0 {
		return nil, false
	}
	sel, ok := call.Fun.(*ast.SelectorExpr)
	if !ok {
		return nil, false
	}
	var fn string
	switch r.method(sel) {
	case "(*sync.Mutex).Lock", "(*sync.RWMutex).Lock":
		fn = "Lock"
	case "(*sync.RWMutex).RLock":
		fn = "RLock"
	default:
		return nil, false
	}
	recv := sel.X
	if t := r.info.TypeOf(recv); t != nil {
		if _, isPtr := t.Underlying().(*types.Pointer); !isPtr {
			recv = &ast.UnaryExpr{Op: token.AND, X: recv}
		}
	}
	return &ast.ExprStmt{X: simCall(fn, r.site(s, strings.ToLower(fn)), recv)}, true
}

// unlockCall recognises `x.Unlock()` / `x.RUnlock()` statements on sync mutexes.
func (r *rewriter) unlockCall(s ast.Stmt) bool {
	es, ok := s.(*ast.ExprStmt)
	if !ok {
		return false
	}
	call, ok := es.X.(*ast.CallExpr)
	if !ok || len(call.Args) != 0 {
		return false
	}
	sel, ok := call.Fun.(*ast.SelectorExpr)
	if !ok {
		return false
	}
	switch r.method(sel) {
	case "(*sync.Mutex).Unlock", "(*sync.RWMutex).Unlock", "(*sync.RWMutex).RUnlock":
		return true
	}
	return false
}

func isTerminating(s ast.Stmt) bool {
	switch s.(type) {
	case *ast.ReturnStmt, *ast.BranchStmt:
		return true
	}
	return false
}

func (r *rewriter) list(in []ast.Stmt) []ast.Stmt {
	var out []ast.Stmt
	for _, s := range in {
		lbl, inner := (*ast.LabeledStmt)(nil), s
		if l, ok := s.(*ast.LabeledStmt); ok {
			lbl, inner = l, l.Stmt
		}
		switch x := inner.(type) {
		case *ast.GoStmt:
			out = append(out, r.goStmt(x)...)
			continue
		case *ast.DeferStmt:
			if id, ok := x.Call.Fun.(*ast.Ident); ok && id.Name == "close" && len(x.Call.Args) == 1 && r.isChan(x.Call.Args[0]) {
				c := r.fresh("c")
				out = append(out, &ast.AssignStmt{Lhs: []ast.Expr{c}, Tok: token.DEFINE, Rhs: []ast.Expr{x.Call.Args[0]}})
				body := []ast.Stmt{r.yieldStmt(x, "close"), r.mark(&ast.ExprStmt{X: &ast.CallExpr{Fun: ast.NewIdent("close"), Args: []ast.Expr{c}}}), progressStmt()}
				out = append(out, &ast.DeferStmt{Call: &ast.CallExpr{Fun: &ast.FuncLit{Type: &ast.FuncType{Params: &ast.FieldList{}}, Body: &ast.BlockStmt{List: body}}}})
				continue
			}
		case *ast.RangeStmt:
			if r.isChan(x.X) {
				if x.Tok == token.ASSIGN {
					r.skip(x, "range-chan-assign")
					break
				}
				pre, ns := r.rangeChan(x)
				if lbl != nil {
					lbl.Stmt = ns
					out = append(out, &ast.BlockStmt{List: []ast.Stmt{pre, lbl}})
				} else {
					out = append(out, &ast.BlockStmt{List: []ast.Stmt{pre, ns}})
				}
				continue
			}
			if r.isMap(x.X) {
				if mt := r.info.TypeOf(x.X).Underlying().(*types.Map); types.IsInterface(mt.Key()) && mt.Key().Underlying().(*types.Interface).NumMethods() > 0 {
					r.skip(x, "range-map-iface-key")
					break
				}
				if x.Tok == token.ASSIGN {
					r.skip(x, "range-map-assign")
					break
				}
				if x.Key == nil && x.Value == nil {
					break
				}
				pre, ns := r.rangeMap(x)
				if lbl != nil {
					lbl.Stmt = ns
					out = append(out, &ast.BlockStmt{List: []ast.Stmt{pre, lbl}})
				} else {
					out = append(out, &ast.BlockStmt{List: []ast.Stmt{pre, ns}})
				}
				continue
			}
		}
		if r.synth[inner] {
			out = append(out, s)
			continue
		}
		if ls, ok := r.lockCall(inner); ok {
			if lbl != nil {
				lbl.Stmt = ls
				out = append(out, lbl)
			} else {
				out = append(out, ls)
			}
			continue
		}
		if r.unlockCall(inner) {
			// a preemption point right after a lock is released: whoever waits
			// for it (or polls the state it guards) may run before the releasing
			// goroutine continues
			out = append(out, s, r.yieldStmt(inner, "unlock"))
			continue
		}
		k := r.stmtOps(inner)
		if k != "" {
			out = append(out, r.yieldStmt(inner, k))
		}
		out = append(out, s)
		if (k == "send" || k == "recv" || k == "close") && !isTerminating(inner) {
			switch inner.(type) {
			case *ast.IfStmt, *ast.SwitchStmt:
				// op in the header: the transfer happened before the body ran
				// (progress noted once after the statement)
			}
			out = append(out, progressStmt())
		}
	}
	return out
}

func (r *rewriter) rangeChan(x *ast.RangeStmt) (ast.Stmt, ast.Stmt) {
	chID := r.fresh("ch")
	pre := &ast.AssignStmt{Lhs: []ast.Expr{chID}, Tok: token.DEFINE, Rhs: []ast.Expr{x.X}}
	okID := r.fresh("ok")
	rx := &ast.UnaryExpr{Op: token.ARROW, X: chID}
	key := x.Key
	if key == nil {
		key = ast.NewIdent("_")
	}
	recv := r.mark(&ast.AssignStmt{Lhs: []ast.Expr{key, okID}, Tok: token.DEFINE, Rhs: []ast.Expr{rx}})
	brk := &ast.IfStmt{Cond: &ast.UnaryExpr{Op: token.NOT, X: okID}, Body: &ast.BlockStmt{List: []ast.Stmt{&ast.BranchStmt{Tok: token.BREAK}}}}
	body := append([]ast.Stmt{r.yieldStmt(x, "range"), recv, progressStmt(), brk}, x.Body.List...)
	return pre, &ast.ForStmt{Body: &ast.BlockStmt{List: body}}
}

func (r *rewriter) rangeMap(x *ast.RangeStmt) (ast.Stmt, ast.Stmt) {
	mID := r.fresh("m")
	pre := &ast.AssignStmt{Lhs: []ast.Expr{mID}, Tok: token.DEFINE, Rhs: []ast.Expr{x.X}}
	r.usedSim = true
	r.rep.ByKind["range-map"]++
	key := x.Key
	var body []ast.Stmt
	needKey := x.Value != nil && !isBlank(x.Value)
	if key == nil || isBlank(key) {
		if needKey {
			key = r.fresh("k")
		} else {
			key = ast.NewIdent("_")
		}
	}
	if needKey {
		okID := r.fresh("ok")
		body = append(body, &ast.AssignStmt{Lhs: []ast.Expr{x.Value, okID}, Tok: token.DEFINE, Rhs: []ast.Expr{&ast.IndexExpr{X: mID, Index: key}}})
		body = append(body, &ast.IfStmt{Cond: &ast.UnaryExpr{Op: token.NOT, X: okID}, Body: &ast.BlockStmt{List: []ast.Stmt{&ast.BranchStmt{Tok: token.CONTINUE}}}})
	}
	body = append(body, x.Body.List...)
	keysFn := "Keys"
	if mt, ok := r.info.TypeOf(x.X).Underlying().(*types.Map); ok && types.IsInterface(mt.Key()) {
		keysFn = "KeysI" // interface{} keys do not satisfy comparable before go1.20
	}
	ns := &ast.RangeStmt{Key: ast.NewIdent("_"), Value: key, Tok: token.DEFINE, X: simCall(keysFn, mID), Body: &ast.BlockStmt{List: body}}
	if id, ok := key.(*ast.Ident); ok && id.Name == "_" {
		ns = &ast.RangeStmt{Tok: token.ILLEGAL, X: simCall(keysFn, mID), Body: &ast.BlockStmt{List: body}}
	}
	return pre, ns
}

func isBlank(e ast.Expr) bool {
	id, ok := e.(*ast.Ident)
	return ok && id.Name == "_"
}

func (r *rewriter) goStmt(g *ast.GoStmt) []ast.Stmt {
	call := g.Call
	if fl, ok := call.Fun.(*ast.FuncLit); ok && len(call.Args) == 0 {
		return []ast.Stmt{&ast.ExprStmt{X: simCall("Go", r.site(g, "go"), fl)}}
	}
	var pre []ast.Stmt
	var names []ast.Expr
	for _, a := range call.Args {
		if tv, ok := r.info.Types[a]; ok && tv.Value != nil {
			names = append(names, a)
			continue
		}
		id := r.fresh("arg")
		pre = append(pre, &ast.AssignStmt{Lhs: []ast.Expr{id}, Tok: token.DEFINE, Rhs: []ast.Expr{a}})
		names = append(names, id)
	}
	fn := call.Fun
	if _, ok := fn.(*ast.FuncLit); !ok {
		id := r.fresh("fn")
		pre = append(pre, &ast.AssignStmt{Lhs: []ast.Expr{id}, Tok: token.DEFINE, Rhs: []ast.Expr{fn}})
		fn = id
	}
	inner := &ast.CallExpr{Fun: fn, Args: names, Ellipsis: call.Ellipsis}
	lit := &ast.FuncLit{Type: &ast.FuncType{Params: &ast.FieldList{}}, Body: &ast.BlockStmt{List: []ast.Stmt{&ast.ExprStmt{X: inner}}}}
	pre = append(pre, &ast.ExprStmt{X: simCall("Go", r.site(g, "go"), lit)})
	return []ast.Stmt{&ast.BlockStmt{List: pre}}
}
