#!/usr/bin/env python3
# tools/trial2result.py <seeded-id> <phase> <seedrun-output>: appends the trials
# printed by tools/seedrun.sh to /verif/seeded/<id>/result.json
import json, os, re, sys
sid, phase, log = sys.argv[1:4]
p = '/verif/seeded/%s/result.json' % sid
d = json.load(open(p)) if os.path.exists(p) else {"trials": []}
for line in open(log):
    m = re.match(r'seeded=(\S+) check=(\S+) exit=(\d+)(.*)', line)
    if not m:
        continue
    sig = re.search(r'signature: (.*)$', m.group(4))
    d["trials"].append({"phase": phase, "check": m.group(2), "exit": int(m.group(3)), "signature": sig.group(1).strip() if sig else ""})
json.dump(d, open(p, 'w'), indent=1)
