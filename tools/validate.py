#!/usr/bin/env python3-vt
import json, sys, glob, jsonschema
ok = True
try:
    jsonschema.validate(json.load(open('/verif/MANIFEST.json')), json.load(open('/root/.vp/MANIFEST.schema.json')))
    print('MANIFEST ok')
except Exception as e:
    print('MANIFEST INVALID', str(e)[:500]); ok = False
sch = json.load(open('/root/.vp/EVIDENCE.schema.json'))
for f in sorted(glob.glob('/verif/evidence/*.json')):
    try:
        jsonschema.validate(json.load(open(f)), sch); print(f, 'ok')
    except Exception as e:
        print(f, 'INVALID', str(e)[:500]); ok = False
sys.exit(0 if ok else 1)
