package main

import (
	"fmt"
	"os"
	"path/filepath"
	"time"
)

func init() {
	props["C13"] = &propCfg{Level: "exploration", QuickRuns: 24000, QuickS: 40, ThoroughRuns: 3000000, ThoroughS: 1200, Race: true,
		Rule: "one case = (combinator, input length around worker/batch/buffer sizes, worker count or pipeline assignment, latency pattern, capacity divisor, scheduling policy + schedule seed) drawn from the run seed; serializer pools also get items that cannot be encoded (NaN property) or decoded (malformed record) at seeded positions (what stands for them is not judged, the other items must come out once each in input order); the lookup batcher also gets a consumer that pauses after every batch while many small batches and timeouts are in flight; non-trivial = at least 2 items flowed; distinct = distinct (combinator, sizes, capacity divisor, full decision-sequence hash)",
		Assumptions: []string{"harness producers/consumers are correct", "testing/synctest quiescence detection is sound", "scaled channel capacities (simrt.Cap) preserve the code's logic; only constants change"}}
}

// selftest: the same seeds in several processes at GOMAXPROCS 1/4/16 must give
// identical (workload, decision trace, verdict) hashes, and twice within a process.
func selftest() int {
	t0 := time.Now()
	b := prepare(false)
	defer os.RemoveAll(b.scratch)
	seeds := 12
	if v := os.Getenv("VSIM_SELFTEST_SEEDS"); v != "" {
		fmt.Sscan(v, &seeds)
	}
	procs := []int{1, 4, 16, 1, 4, 16}
	if v := os.Getenv("VSIM_SELFTEST_PROCS"); v != "" {
		var n int
		fmt.Sscan(v, &n)
		procs = nil
		for i := 0; i < n; i++ {
			procs = append(procs, []int{1, 4, 16}[i%3])
		}
	}
	type res struct{ hashes map[string]string; infra []string }
	results := make([]res, len(procs))
	done := make(chan int, len(procs))
	for i, gp := range procs {
		go func(i, gp int) {
			wd := filepath.Join(b.scratch, fmt.Sprintf("st%d", i))
			os.MkdirAll(wd, 0755)
			env := []string{"VSIM_SELFTEST=1", fmt.Sprintf("GOMAXPROCS=%d", gp), "VSIM_SEED_START=7000", fmt.Sprintf("VSIM_COUNT=%d", seeds), "VSIM_WORKDIR=" + wd,
				"VSIM_REPLAYDIR=" + filepath.Join(b.scratch, "replays"), "VSIM_KNOWN=" + filepath.Join(verifDir, "known_findings.json")}
			if p := os.Getenv("VSIM_SELFTEST_PROP"); p != "" {
				env = append(env, "VSIM_PROP="+p)
			}
			r := runWorker(b.bin, env, filepath.Join(b.scratch, fmt.Sprintf("st%d.jsonl", i)), 30*time.Minute)
			rs := res{hashes: map[string]string{}}
			ok := false
			for _, rec := range r.records {
				switch rec.Kind {
				case "hash":
					rs.hashes[fmt.Sprintf("%s/%d", rec.Scenario, rec.Seed)] = rec.Hash
				case "infra":
					rs.infra = append(rs.infra, rec.Infra)
				case "summary":
					ok = true
				}
			}
			if !ok {
				rs.infra = append(rs.infra, fmt.Sprintf("selftest worker %d died: %v %s", i, r.exitErr, tailStr(r.output, 2000)))
			}
			results[i] = rs
			done <- i
		}(i, gp)
	}
	for range procs {
		<-done
	}
	bad := 0
	for i, r := range results {
		for _, m := range r.infra {
			fmt.Fprintf(os.Stderr, "SELFTEST: process %d (GOMAXPROCS=%d): %s\n", i, procs[i], m)
			bad++
		}
		for k, h := range r.hashes {
			if h0, ok := results[0].hashes[k]; !ok || h0 != h {
				fmt.Fprintf(os.Stderr, "SELFTEST: %s differs between process 0 and %d (GOMAXPROCS %d vs %d): %s vs %s\n", k, i, procs[0], procs[i], h0, h)
				bad++
			}
		}
	}
	fmt.Printf("selftest: %d processes x %d cases, %d mismatches, %.1fs\n", len(procs), len(results[0].hashes), bad, time.Since(t0).Seconds())
	if bad > 0 {
		return 2
	}
	return 0
}

func tailStr(s string, n int) string {
	if len(s) > n {
		return s[len(s)-n:]
	}
	return s
}

func init() {
	props["C07"] = &propCfg{Level: "exploration", QuickRuns: 12000, QuickS: 45, ThoroughRuns: 1500000, ThoroughS: 1500,
		Rule: "one case = (graph shape and size chosen around the scaled buffer capacities, or a small random graph; a loop-free program from templates with fan-out/limit/range/distinct/aggregate or from the typed generator; capacity divisor; cancellation point; scheduling policy with slow-stage/slow-consumer emphasis + schedule seed); non-trivial = the program compiled and at least one row flowed; distinct = distinct (shape, size, program, divisor, cancel point, decision-sequence hash)",
		Assumptions: []string{"the gRPC handler keeps draining the result channel after a cancel (server/api.go:Traversal does)", "a deadlock found with scaled-down capacities is only reported after it reproduced at the production constants with the workload scaled up by the same factor", "simkv implements the kvi contract (snapshot views, atomic top-level writes)"}}
}

func init() {
	props["C12"] = &propCfg{Level: "exploration", QuickRuns: 6000, QuickS: 50, ThoroughRuns: 600000, ThoroughS: 1500, Race: true,
		Rule: "one case = (small graph with cycles/self loops/dead ends, a mark/jump program of one of six documented shapes with a counter bounding the depth, optional limit after the loop, capacity divisor, scheduling policy with starve-one aimed at a seeded goroutine + schedule seed, clock advance cadence); 3% of the cases are loop-volume cases: a star whose 1100..2600 leaves each start a chain, so that every pass re-enters that many travelers (step budget about ten times a clean run, the fair-policy re-run decides livelock); non-trivial = the reference result is non-empty; distinct = distinct (graph, program, divisor, decision-sequence hash)",
		Assumptions: []string{"loop bodies contain traveler-local, order-preserving steps only (as the property states)", "emit=false is generated only with no condition, where documentation and code cannot differ", "livelock is reported only under the fair policy after 1000 progress-free rounds with the clock advancing"}}
}

func init() {
	props["C01"] = &propCfg{Level: "exploration", QuickRuns: 16000, QuickS: 50, ThoroughRuns: 2000000, ThoroughS: 1500,
		Rule: "two families: (enum) consecutive run seeds walk the bounded space of all statement lists START.s1.s2.s3 over 4 starts x 25 concrete steps (65100 programs; well-typed ones are compared with refql, ill-typed ones must be rejected by Compile before any goroutine starts), each on a fresh random graph; (random) typed random programs up to length 10 incl. unwind on purpose-built data; every case runs under a seeded policy/capacity divisor. non-trivial = the reference result is non-empty (or the program is ill-typed); distinct = distinct (graph, program, divisor, decision-sequence hash)",
		Assumptions: []string{"refql encodes the documented semantics (DESIGN.md App. A); constructs the documentation leaves open are not generated or only weakly judged", "simkv implements the kvi contract"}}
}

func init() {
	props["C02"] = &propCfg{Level: "exploration", QuickRuns: 8000, QuickS: 50, ThoroughRuns: 1000000, ThoroughS: 1500,
		Rule: "one case = (random graph, optionally with vertices relabelled/deleted after the load so that the label index holds stale entries; a typed random program biased to leading hasLabel/hasId/has(_label|_gid) filters and to filters/renders/selects that read earlier steps or marks; backend kvgraph or the hint-honouring decorator; mode literal-vs-optimized, count-vs-rows or spelling-vs-spelling; policy, capacity divisor, schedule seed); non-trivial = the expected side returned rows; distinct = distinct (graph, program, backend, mode, decision-sequence hash)",
		Assumptions: []string{"the literal plan (one StatementProcessor per statement, every step loading, no optimizer) is the meaning of the statements", "the hint-honouring decorator follows the contract of grids/graph.go (id+label kept, Data empty, Loaded=false)"}}
}

func init() {
	props["C03"] = &propCfg{Level: "exploration", QuickRuns: 6000, QuickS: 50, ThoroughRuns: 600000, ThoroughS: 1500,
		Rule: "one case = a mutation history (graph create/delete, vertex/edge add incl. re-adding ids with other label/endpoints/data, batches, bulk streams, deletes of present and absent things, invalid elements and names) over a universe of 2 graphs x 4 vertex ids x 4 edge ids x 3 labels, with seeded simulated time between calls (same_tick = zero elapsed time as a clock fault); after EVERY step ~130 observables (lookups, listings with and without load, neighbours and incident edges per direction and label filter, label listings, label-index start, graph list, timestamp rule) are compared with the abstract graph; non-trivial = at least 2 operations; distinct = distinct operation sequences",
		Assumptions: []string{"refgraph is the abstract graph of the property statement (last write wins, vertex delete cascades, edges may dangle)", "validation rules are those of gripql/util.go", "simkv implements the kvi contract; both bulk-write error behaviours (discard / commit) are configurations"}}
}

func init() {
	props["C04"] = &propCfg{Level: "fault_enumeration", QuickRuns: 5000, QuickS: 50, ThoroughRuns: 400000, ThoroughS: 1500,
		Rule: "restart: a C03 history with a clean close/reopen after every call (short histories) or at seeded positions, judged after every step against the abstract graph; crash: for EVERY mutating call of a seeded history the top-level key-value writes it issues are counted on a cloned disk and a crash is injected before each of them in turn (complete enumeration of crash points per call), the store is reopened and must show the abstract state before or after the call (graph deletion: any consistent partial state); both bulk-write error behaviours of the drivers are configurations. After every crash whose recovered state equals the abstract state before or after the call, the next three calls of the history and a probe writing new labelled elements are judged against that state (after-recovery). crash-volume: the same enumeration for calls touching hundreds of keys (a hub vertex with 180..1100 incident edges loaded by long batches or one bulk stream; deleting the hub, an edge, the graph). write-error: the same enumeration with the k-th top-level write failing with an I/O error instead of the process dying (server not restarted): an acknowledged call must be fully applied, a failed one leaves the state before or after it, the running server and a server restarted on the same disk must show the same state, the running server goes on correctly, and so does a server restarted cleanly later. non-trivial = at least 2 operations; distinct = distinct (history, mode, configuration)",
		Assumptions: []string{"each top-level write (Set, Delete, DeletePrefix, committed Update/BulkWrite) is atomic and durable when it returns, as the property states", "freezing the simulated disk at the crash point yields exactly the durable state of a process death at that point", "label listings are not compared (recorded C03 findings on independent observables), but a label of a listed element that is missing from the label listing is"}}
}

func init() {
	props["C16"] = &propCfg{Level: "exploration", QuickRuns: 8000, QuickS: 50, ThoroughRuns: 800000, ThoroughS: 1500,
		Rule: "one case = a history of graph/vertex/edge writes and deletes (with clean reopen in half of the cases) whose graph names, ids, labels, endpoints, property names and values come from hostile pools (0x00 separator, 0x01 edge-type byte, '|' '.' '/', unicode, empty, 300-byte strings, the internal words label/v/e/data/gid, prefixes of one another; deep nesting, empty containers, +-MaxFloat64, 2^53+1, strings with NUL); after every step the observable state over every identifier of the history must equal the abstract graph in which accepted writes are applied verbatim and rejected writes change nothing. non-trivial = at least 2 operations; distinct = distinct operation sequences",
		Assumptions: []string{"acceptance is decided by the implementation (error return), the oracle only demands verbatim storage or no effect", "label listings are not compared (recorded C03 findings)"}}
}

func init() {
	props["C09"] = &propCfg{Level: "exploration", QuickRuns: 4000, QuickS: 50, ThoroughRuns: 400000, ThoroughS: 1500,
		Rule: "one case = a history of AddField/RemoveField/AddDoc (new and replacing)/RemoveDoc/reopen over 3 fields (one nested), 4 document ids, string terms and numeric terms over sign/magnitude boundary values (+-1e9, +-MaxFloat64, SmallestNonzero, fractions, zero); after every step ~100 query results (term match, field terms, term counts, string term counts, min, max, ascending listing, five numeric windows) are compared with a brute-force scan of the live documents; the streaming query goroutines run under a seeded schedule with scaled channel capacities. In half of the avoidance-mode cases a seeded subset of the steps is not observed (queries write recounted term counts back; observing after every step hides states in which a mutation meets an invalidated count); seeded numeric windows with bounds from the value pool are added to the fixed ones. index-concurrent: one simulated goroutine inserts and removes documents while one or two others run every query method repeatedly; when all have finished every query is compared with the scan of the final documents, then documents are removed sequentially and everything is compared again. query-volume: streamed queries over more distinct terms than the channels buffer. non-trivial = at least 2 operations; distinct = distinct operation sequences",
		Assumptions: []string{"numeric window boundaries are not judged (inclusivity undocumented)", "min/max with no numeric term are not judged", "-0.0 is not generated (the index distinguishes it from 0 by bytes, a scan does not)"}}
}

func init() {
	props["C19"] = &propCfg{Level: "exploration", QuickRuns: 6000, QuickS: 50, ThoroughRuns: 600000, ThoroughS: 1500,
		Rule: "one case = (graph of 0..30 one-label vertices whose field values form a seeded multiset: missing, null, bool, string, negative/zero/fractional numbers, list, map, duplicates; a traversal V()[.hasLabel|.out] feeding aggregate() with 1..4 uniquely named aggregations: count, term (size 0/1/2/100), histogram (interval 1/2/5), percentile (several percent lists), field, type; capacity divisor, policy, schedule seed); every aggregation is judged against a direct computation over the reference rows and re-run alone (independence). non-trivial = non-empty input; distinct = distinct (graph, aggregations, divisor, decision-sequence hash)",
		Assumptions: []string{"the rows entering aggregate() are those of refql for the prefix", "term ties and the UNKNOWN type bucket are not judged", "percentiles are judged only by monotonicity and range (the estimator is approximate)"}}
}

func init() {
	props["C18"] = &propCfg{Level: "exploration", QuickRuns: 6000, QuickS: 50, ThoroughRuns: 600000, ThoroughS: 1500, Race: true, CrashIsViolation: true,
		Rule: "server-bulk: one case = an element stream (valid/invalid mix, repeated ids, target graphs g1/g2/a missing graph/a schema graph switching back and forth, lengths 0..20 and around the scaled 100-slot hand-off buffer, optional client stream error; 3% long runs of 1001..4100 distinct elements for one graph) sent through the real GripServer.BulkAdd over kvgraph on the simulated disk under a seeded schedule; final observable state must equal refgraph after adding the valid routable elements one at a time in stream order, InsertCount must equal their number, ErrorCount must be >0 iff something was invalid or unroutable. streambatch: util.StreamBatch with batch sizes 1..100 against recording add functions (order and multiplicity per element type, batch size bound, error reporting). non-trivial = at least 2 elements; distinct = distinct (stream, configuration)",
		Assumptions: []string{"streams containing edges without an id (server generates one) are judged by counts only", "label listings are not compared (recorded C03 findings)", "the per-element policy filter of accounts.BulkWriteFilter is not in the loop (C05 is not claimed)"}}
}

func init() {
	props["C06"] = &propCfg{Level: "exploration", QuickRuns: 10000, QuickS: 50, ThoroughRuns: 1000000, ThoroughS: 1500, CrashIsViolation: true,
		Rule: "one case = one hostile request against a real GripServer on an empty or small populated graph: Traversal/Submit with a typed program into which hostile steps are spliced (condition values of every JSON kind for every operator incl. missing values and unknown operators, references to undefined marks, empty/duplicate/unnamed/zero-interval/NaN aggregations, negative and inverted ranges, *Null steps followed by anything, jumps to missing marks, empty statements, nil expressions), ResumeJob with hostile extensions, AddVertex/AddEdge with nil or empty elements, BulkAdd streams alternating existing/missing/schema graphs with nil elements, and 19 other handlers on existing/missing/empty/schema graph names; each under a seeded schedule. hostile-traversal-batch: 20..40 traversal requests per server drawn as start, optional as(m0), one state changer (null traveler, render, count, path, aggregate, fields, select, unwind, distinct), two or three steps of one theme with consistent mark names, and has() operands that mirror the shape (list, object) of the stored value. A panic reaching the top of any goroutine, or a dead worker process, is the violation. distinct = distinct requests",
		Assumptions: []string{"grpc-go does not recover handler panics and the repository has no recover(): a panic on any goroutine terminates the server", "requests that merely never finish are not judged here (C07/C12)"}}
}

func init() {
	props["C17"] = &propCfg{Level: "exploration", QuickRuns: 5000, QuickS: 60, ThoroughRuns: 500000, ThoroughS: 1500, Race: true, RaceShare: 2, CrashIsViolation: true,
		Rule: "one case = 2..4 client sessions of 2..6 calls (vertex/edge add and delete on overlapping ids, graph create/delete, one-element bulk streams, traversals, lookups, label and graph listings, schema upload/read, job submit/poll/view/list, caching clients that read a graph's timestamp and then a listing) against one real GripServer, interleaved by the seeded scheduler at every yield point incl. inside the simulated disk; half of the workers run the race-detector build. Judged: no process death, race reports in repository code (deduplicated by the pair of racing functions), final state explained by some order of the acknowledged edits consistent with each client's order (exact bounded search), every read value was written by some client, a cache entry whose timestamp is still the graph's timestamp after quiescence is still the listing. Waiting writers of a sync.RWMutex are announced so that readers wait for them (recursive read locks deadlock as in the real mutex); budget exhaustion is re-run under the fair policy. non-trivial = at least 2 clients and 2 edits; distinct = distinct (sessions, decision-sequence hash)",
		Assumptions: []string{"the final-state oracle is deliberately weaker than linearizability: the property constrains the final state and per-client order only", "edge ids keep their endpoints and label (the recorded edge re-add finding is excluded), label listings are not compared", "simkv Update transactions are serialisable and top-level writes atomic, as the real engines'"}}
}

func init() {
	props["C11"] = &propCfg{Level: "exploration", QuickRuns: 3000, QuickS: 60, ThoroughRuns: 300000, ThoroughS: 1500, CrashIsViolation: true,
		Rule: "one case = a small or medium graph (result sizes around the 4 serializer workers, their 10-slot queues and the 40-slot merge buffer, scaled) and a sequence of 2..7 job operations: submit a deterministic traversal of any result type (vertices, edges, counts, selections, renders, paths, aggregations) and poll on the simulated clock until COMPLETE, view, resume a job with the rest of a split program, search with unrelated and with extending queries, list, delete, restart the job storage over the same directory; serializer workers optionally slowed by seeded sleeps; all under a seeded schedule. One case in eight carries a row of 64 KiB..1.1 MiB; Submit is called like a gRPC unary handler (its context is cancelled when it returns). jobs-process-death: a crash-free run counts the steps taken inside package jobstorage (file operations, serializer channel operations, lock acquisition and release), then the same seeded run is repeated with the process dying in front of step k (8+1 sampled k per case, every k up to 160 plus the last 12 in half of the thorough cases); the job directory is copied at the moment of death, a new server is started over the copy: jobs seen COMPLETE are listed, complete, readable with identical rows and resumable, acknowledged deletes stay deleted, and every job the restarted server reports COMPLETE stores exactly the rows of its recorded query. jobs-disk-full: file writes of the job store go through a seam; the k-th write (or every write from the k-th on) fails; a job may end in ERROR but may not be reported COMPLETE with other rows than the direct traversal returns, before or after a restart of the job store. non-trivial = at least 2 operations; distinct = distinct (graph, operations, configuration)",
		Assumptions: []string{"job files are real files in a scratch directory (no storage seam in jobstorage); un-fsynced data loss (power loss) is not modelled, only process death and failing writes", "programs with limit/skip/range/distinct(field) are not used for jobs (which rows they keep is unspecified)", "the direct traversal through the same server is the reference for stored and resumed rows"}}
}

func init() {
	props["C15"] = &propCfg{Level: "exploration", QuickRuns: 8000, QuickS: 90, ThoroughRuns: 3000000, ThoroughS: 1500,
		Rule: "one case = 1..3 vertex tables (several may share a label) and 0..3 link tables in either direction (rows with missing, empty, non-string and dangling link fields), a mapping of tables to id prefixes/labels and link tables to edge types, and a typed traversal from the C01 generator biased to leading hasLabel/id starts; tables are served by the real SimpleTableServicer over DriverPreLoad through the simulated transport with seeded per-message latency, under a seeded schedule and scaled buffers. Judged: refql on the graph materialised from tables+mapping (exact multiset / bound arithmetic), stream closure, refusal of write calls. non-trivial = non-empty reference result; distinct = distinct (tables, mapping, program, configuration, decision-sequence hash)",
		Assumptions: []string{"edge ids follow the driver's own convention (from-label-to), which the property does not fix; repeated links within one link table (same id) are not generated", "gripper.DriverCache is not in the loop: at this commit it lacks GetFieldLinks, does not implement gripper.Driver and cannot be served by SimpleTableServicer", "the gRPC transport is the in-process simnet"}}
}

func init() {
	props["C10"] = &propCfg{Level: "exploration", QuickRuns: 480, QuickS: 70, ThoroughRuns: 60000, ThoroughS: 1800, CrashIsViolation: true,
		Rule: "kv-ops: one case = 3..27 operations on kvi.KVInterface (Set, Get, HasKey, Delete, DeletePrefix, View scripts of Seek/SeekReverse/Next/Get/prefix scans, Update scripts with reads of own writes and failing callbacks, BulkWrite scripts, clean reopen) over keys from the alphabet {a, b, 0x00, 0xff} with shared prefixes and empty values, executed on each of the four REAL drivers on scratch directories and on a sorted-map model, compared return value by return value and by full content after every step; one driver per case is run twice (determinism). graph-on-drivers: a C03 history on kvgraph over each real driver and over simkv, final observable states compared. kv-volume (a fixed share of the seeds): 10001..31000 keys (120000 in the thorough tier) under one prefix and 1..300 under a neighbouring one in one bulk write, DeletePrefix of the first, counts and order by forward scan on the same handle and after a clean reopen. kv-concurrent-bulk (a fixed share of the seeds): 2..6 real goroutines start BulkWrite at the same moment, one callback fails; every callback runs once, every key of a successful call is stored (25 rounds per driver; the Go runtime schedules, so this part can miss but cannot raise a false alarm). non-trivial = at least 2 operations; distinct = distinct operation sequences",
		Assumptions: []string{"the storage engines are real and not under the scheduler (stated in DESIGN §7 C10): this check is seeded history search with restart as the only injected fault", "iterator Key/Value are compared only while Valid(); error values are not compared, only error/no-error; Next on an invalid iterator and BulkWrite with a failing callback (drivers differ by design: discard vs commit) are not judged"}}
}
