// vsim is the orchestrator: it instruments /repo's current working tree into
// an overlay, builds the worker test binary against it, fans seeded runs out to
// worker processes, collects their records, applies the known-findings file,
// writes the evidence file and prints the result lines.
//
//	vsim check <PROP> [--tier quick|thorough]
//	vsim replay <file>
//	vsim selftest [--seeds N]
//
// exit 0: property held on everything explored (KNOWN-FINDING lines allowed)
// exit 1: at least one VIOLATION line
// exit 2: build, determinism, watchdog or other infrastructure trouble
package main

import (
	"syscall"
	"bufio"
	"encoding/json"
	"fmt"
	"os"
	"os/exec"
	"path/filepath"
	"runtime"
	"sort"
	"strconv"
	"strings"
	"sync"
	"time"
)

const verifDir = "/verif"

// outDir is where evidence and replay files go: /verif/<kind>, or
// $VSIM_OUT/<kind> for trial runs against a deliberately broken tree (whose
// evidence must not replace the evidence of the unchanged tree).
func outDir(kind string) string {
	if v := os.Getenv("VSIM_OUT"); v != "" {
		return filepath.Join(v, kind)
	}
	return filepath.Join(verifDir, kind)
}
// repoDir is the tree under test: /repo. VSIM_REPO names another copy for
// trial runs against deliberately broken trees (tools/seedrun.sh), so that
// such trials do not occupy /repo; registered commands never set it.
var repoDir = func() string {
	if v := os.Getenv("VSIM_REPO"); v != "" {
		return v
	}
	return "/repo"
}()

// modfileArgs points the harness module at repoDir when it is not /repo.
func modfileArgs(scratch string) []string {
	if repoDir == "/repo" {
		return nil
	}
	gm, err := os.ReadFile(filepath.Join(verifDir, "go.mod"))
	if err != nil {
		die(2, "go.mod: %v", err)
	}
	mf := filepath.Join(scratch, "go.mod")
	os.WriteFile(mf, []byte(strings.Replace(string(gm), "=> /repo", "=> "+repoDir, 1)), 0644)
	gs, _ := os.ReadFile(filepath.Join(verifDir, "go.sum"))
	os.WriteFile(filepath.Join(scratch, "go.sum"), gs, 0644)
	return []string{"-modfile=" + mf}
}

var instrPkgs = []string{
	"github.com/bmeg/grip/engine/...", "github.com/bmeg/grip/gdbi", "github.com/bmeg/grip/kvgraph",
	"github.com/bmeg/grip/kvindex", "github.com/bmeg/grip/jobstorage", "github.com/bmeg/grip/gripper",
	"github.com/bmeg/grip/util", "github.com/bmeg/grip/server", "github.com/bmeg/grip/timestamp",
	"github.com/bmeg/grip/accounts",
}

type propCfg struct {
	Level       string
	QuickRuns   int // total runs, quick tier
	QuickS      int // wall budget per worker, quick tier
	ThoroughRuns int
	ThoroughS   int
	Race        bool // also run a slice of the seeds on the -race build
	RaceShare   int  // 1/RaceShare of the workers use the race build (default 4)
	Rule        string
	Assumptions []string
	CrashIsViolation bool
}

var props = map[string]*propCfg{}

func goEnv() []string {
	env := os.Environ()
	env = append(env, "GOFLAGS=-mod=mod", "GOPROXY=off", "GOSUMDB=off", "GOTOOLCHAIN=local", "CGO_ENABLED=1")
	return env
}

func goBin() string {
	for _, p := range []string{"/usr/local/bin/go1.26.8", "/opt/veriftools/go1.26.8/bin/go"} {
		if _, err := os.Stat(p); err == nil {
			return p
		}
	}
	return "go1.26.8"
}

func die(code int, f string, a ...interface{}) {
	fmt.Fprintf(os.Stderr, "vsim: "+f+"\n", a...)
	os.Exit(code)
}

type build struct {
	scratch string
	bin     string
	raceBin string
	report  map[string]interface{}
}

func run(dir string, env []string, name string, args ...string) (string, error) {
	cmd := exec.Command(name, args...)
	cmd.Dir = dir
	cmd.Env = env
	out, err := cmd.CombinedOutput()
	return string(out), err
}

func prepare(race bool) *build {
	scratch, err := os.MkdirTemp("", "vsim-")
	if err != nil {
		die(2, "mkdtemp: %v", err)
	}
	b := &build{scratch: scratch}
	instr := filepath.Join(verifDir, "bin", "instrument")
	if _, err := os.Stat(instr); err != nil {
		if out, err := run(filepath.Join(verifDir, "tools/instrument"), goEnv(), goBin(), "build", "-o", instr, "."); err != nil {
			os.RemoveAll(scratch)
			die(2, "building instrumenter failed: %v\n%s", err, out)
		}
	}
	ov := filepath.Join(scratch, "ov")
	args := append([]string{"-out", ov, "-dir", repoDir}, instrPkgs...)
	if out, err := run(verifDir, goEnv(), instr, args...); err != nil {
		os.RemoveAll(scratch)
		die(2, "instrumenting /repo failed (infrastructure, not a violation): %v\n%s", err, out)
	}
	rb, _ := os.ReadFile(filepath.Join(ov, "report.json"))
	json.Unmarshal(rb, &b.report)
	b.bin = filepath.Join(scratch, "scen.test")
	var wg sync.WaitGroup
	var e1, e2 error
	var o1, o2 string
	mfa := modfileArgs(scratch)
	wg.Add(1)
	go func() {
		defer wg.Done()
		o1, e1 = run(verifDir, goEnv(), goBin(), append(append([]string{"test", "-c"}, mfa...), "-overlay", filepath.Join(ov, "overlay.json"), "-tags", "verif", "-o", b.bin, "./scen")...)
	}()
	if race {
		b.raceBin = filepath.Join(scratch, "scen.race.test")
		wg.Add(1)
		go func() {
			defer wg.Done()
			o2, e2 = run(verifDir, goEnv(), goBin(), append(append([]string{"test", "-c", "-race"}, mfa...), "-overlay", filepath.Join(ov, "overlay.json"), "-tags", "verif", "-o", b.raceBin, "./scen")...)
		}()
	}
	wg.Wait()
	if e1 != nil {
		os.RemoveAll(scratch)
		die(2, "building the instrumented worker failed (infrastructure, not a violation): %v\n%s", e1, o1)
	}
	if e2 != nil {
		os.RemoveAll(scratch)
		die(2, "building the instrumented -race worker failed (infrastructure, not a violation): %v\n%s", e2, o2)
	}
	return b
}

type record struct {
	Kind      string          `json:"kind"`
	Seed      uint64          `json:"seed"`
	Scenario  string          `json:"scenario"`
	Signature string          `json:"signature"`
	Detail    string          `json:"detail"`
	Replay    string          `json:"replay"`
	Known     bool            `json:"known"`
	Hash      string          `json:"hash"`
	Infra     string          `json:"infra"`
	Summary   *workerSummary  `json:"summary"`
}

type workerSummary struct {
	Runs          int               `json:"runs"`
	Inconclusive  map[string]int    `json:"inconclusive"`
	NonTrivial    int               `json:"nontrivial"`
	Fingerprints  []uint64          `json:"fingerprints"`
	Steps         int64             `json:"steps"`
	SimTimeNs     int64             `json:"sim_time_ns"`
	Bubbles       int               `json:"bubbles"`
	States        int64             `json:"states"`
	Spawned       int64             `json:"spawned"`
	Counters      map[string]int    `json:"counters"`
	Probes        map[string]int    `json:"probes"`
	ByScenario    map[string]int    `json:"by_scenario"`
	KnownHits     map[string]int    `json:"known_hits"`
	Samples       []json.RawMessage `json:"samples"`
	Interleavings []uint64          `json:"interleavings"`
	WallS         float64           `json:"wall_s"`
	Real          []string          `json:"real"`
	Stub          []string          `json:"stub"`
}

type knownFinding struct {
	Property  string `json:"property"`
	Signature string `json:"signature"`
	Status    string `json:"status"`
	Commit    string `json:"commit,omitempty"`
	What      string `json:"what"`
}

func loadKnown() []knownFinding {
	b, err := os.ReadFile(filepath.Join(verifDir, "known_findings.json"))
	if err != nil {
		return nil
	}
	var f struct {
		Findings []knownFinding `json:"findings"`
	}
	if err := json.Unmarshal(b, &f); err != nil {
		die(2, "known_findings.json does not parse: %v", err)
	}
	return f.Findings
}

func sigMatch(pat, sig string) bool {
	parts := strings.Split(pat, "*")
	if len(parts) == 1 {
		return pat == sig
	}
	if !strings.HasPrefix(sig, parts[0]) {
		return false
	}
	sig = sig[len(parts[0]):]
	for i := 1; i < len(parts)-1; i++ {
		j := strings.Index(sig, parts[i])
		if j < 0 {
			return false
		}
		sig = sig[j+len(parts[i]):]
	}
	return strings.HasSuffix(sig, parts[len(parts)-1])
}

type workerResult struct {
	records []record
	exitErr error
	output  string
	curSeed string
	timedOut bool
	race    bool
}

func watchdog(budget int) time.Duration {
	if v := os.Getenv("VSIM_WATCHDOG_S"); v != "" {
		var n int
		fmt.Sscan(v, &n)
		return time.Duration(n) * time.Second
	}
	return time.Duration(budget+240) * time.Second
}

func runWorker(bin string, env []string, outFile string, timeout time.Duration) workerResult {
	cmd := exec.Command(bin, "-test.run", "^TestWorker$", "-test.timeout", "0", "-test.count", "1")
	cmd.Dir = filepath.Join(verifDir, "scen")
	cmd.Env = append(goEnv(), env...)
	cmd.Env = append(cmd.Env, "VSIM_OUT="+outFile, "GORACE=halt_on_error=0 log_path="+outFile+".race", "VSIM_RACELOG="+outFile+".race")
	var res workerResult
	done := make(chan struct{})
	var out []byte
	var err error
	go func() { out, err = cmd.CombinedOutput(); close(done) }()
	select {
	case <-done:
	case <-time.After(timeout):
		if cmd.Process != nil {
			if os.Getenv("VSIM_ONE_SEED") != "" {
				cmd.Process.Signal(syscall.SIGQUIT)
				time.Sleep(3 * time.Second)
			}
			cmd.Process.Kill()
		}
		<-done
		res.timedOut = true
	}
	res.exitErr = err
	res.output = string(out)
	if f, e := os.Open(outFile); e == nil {
		sc := bufio.NewScanner(f)
		sc.Buffer(make([]byte, 1<<20), 64<<20)
		for sc.Scan() {
			var r record
			if json.Unmarshal(sc.Bytes(), &r) == nil {
				res.records = append(res.records, r)
			}
		}
		f.Close()
	}
	if b, e := os.ReadFile(outFile + ".cur"); e == nil {
		res.curSeed = strings.TrimSpace(string(b))
	}
	return res
}

func nproc() int {
	n := runtime.NumCPU()
	if v := os.Getenv("VSIM_PROCS"); v != "" {
		if k, err := strconv.Atoi(v); err == nil && k > 0 {
			n = k
		}
	}
	if n > 16 {
		n = 16
	}
	return n
}

func check(prop, tier string) int {
	pc := props[prop]
	if pc == nil {
		die(2, "unknown or unclaimed property %s", prop)
	}
	t0 := time.Now()
	baseSeed := uint64(1)
	if v := os.Getenv("VERIF_SEED"); v != "" {
		if k, err := strconv.ParseUint(v, 10, 64); err == nil {
			baseSeed = k
		}
	}
	b := prepare(pc.Race)
	defer os.RemoveAll(b.scratch)
	buildS := time.Since(t0).Seconds()

	runs, budget := pc.QuickRuns, pc.QuickS
	if tier == "thorough" {
		runs, budget = pc.ThoroughRuns, pc.ThoroughS
	}
	if v := os.Getenv("VSIM_RUNS"); v != "" {
		runs, _ = strconv.Atoi(v)
	}
	if v := os.Getenv("VSIM_BUDGET_S"); v != "" {
		budget, _ = strconv.Atoi(v)
	}
	np := nproc()
	replayDir := outDir("replays")
	os.MkdirAll(replayDir, 0755)
	workDir := filepath.Join(b.scratch, "work")
	os.MkdirAll(workDir, 0755)
	per := (runs + np - 1) / np
	oneSeed := uint64(0)
	if v := os.Getenv("VSIM_ONE_SEED"); v != "" {
		// diagnostics: exactly one case, one worker; a worker that does not
		// finish is asked for its goroutine stacks (SIGQUIT) instead of killed
		fmt.Sscan(v, &oneSeed)
		np, per = 1, 1
	}
	results := make([]workerResult, np)
	var wg sync.WaitGroup
	for i := 0; i < np; i++ {
		wg.Add(1)
		go func(i int) {
			defer wg.Done()
			bin := b.bin
			race := false
			// the last quarter of the workers uses the race build when the property asks for it
			share := pc.RaceShare
			if share < 1 {
				share = 4
			}
			if pc.Race && i >= np-maxi(1, np/share) {
				bin, race = b.raceBin, true
			}
			wd := filepath.Join(workDir, fmt.Sprintf("w%d", i))
			os.MkdirAll(wd, 0755)
			env := []string{
				"VSIM_PROP=" + prop, "VSIM_TIER=" + tier,
				// seed of run k of worker i: base*1e6 + i + k*np  (disjoint slices, reproducible per VERIF_SEED)
				fmt.Sprintf("VSIM_SEED_START=%d", func() uint64 {
					if oneSeed != 0 {
						return oneSeed
					}
					return baseSeed*1000000 + uint64(i)
				}()),
				fmt.Sprintf("VSIM_SEED_STRIDE=%d", np),
				fmt.Sprintf("VSIM_COUNT=%d", per),
				fmt.Sprintf("VSIM_BUDGET_S=%d", budget),
				"VSIM_WORKDIR=" + wd, "VSIM_REPLAYDIR=" + replayDir,
				"VSIM_KNOWN=" + filepath.Join(verifDir, "known_findings.json"),
			}
			if race {
				env = append(env, "VSIM_RACE=1")
			}
			results[i] = runWorker(bin, env, filepath.Join(b.scratch, fmt.Sprintf("out%d.jsonl", i)), watchdog(budget))
			results[i].race = race
		}(i)
	}
	wg.Wait()
	return report(prop, tier, baseSeed, pc, b, results, t0, buildS)
}

func maxi(a, b int) int {
	if a > b {
		return a
	}
	return b
}

func report(prop, tier string, baseSeed uint64, pc *propCfg, b *build, results []workerResult, t0 time.Time, buildS float64) int {
	known := loadKnown()
	agg := workerSummary{Inconclusive: map[string]int{}, Counters: map[string]int{}, Probes: map[string]int{}, ByScenario: map[string]int{}, KnownHits: map[string]int{}}
	fps := map[uint64]struct{}{}
	ils := map[uint64]struct{}{}
	realSet, stubSet := map[string]bool{}, map[string]bool{}
	type viol struct {
		sig, detail, replay string
		seed   uint64
	}
	var viols []viol
	var infra []string
	raceRuns := 0
	for i, r := range results {
		gotSummary := false
		for _, rec := range r.records {
			switch rec.Kind {
			case "summary":
				gotSummary = true
				s := rec.Summary
				agg.Runs += s.Runs
				if r.race {
					raceRuns += s.Runs
				}
				agg.Steps += s.Steps
				agg.SimTimeNs += s.SimTimeNs
				agg.Bubbles += s.Bubbles
				agg.States += s.States
				agg.Spawned += s.Spawned
				for k, v := range s.Inconclusive {
					agg.Inconclusive[k] += v
				}
				for k, v := range s.Counters {
					agg.Counters[k] += v
				}
				for k, v := range s.Probes {
					agg.Probes[k] += v
				}
				for k, v := range s.ByScenario {
					agg.ByScenario[k] += v
				}
				for k, v := range s.KnownHits {
					agg.KnownHits[k] += v
				}
				for _, f := range s.Fingerprints {
					fps[f] = struct{}{}
				}
				for _, f := range s.Interleavings {
					ils[f] = struct{}{}
				}
				if len(agg.Samples) < 4 {
					agg.Samples = append(agg.Samples, s.Samples...)
				}
				for _, c := range s.Real {
					realSet[c] = true
				}
				for _, c := range s.Stub {
					stubSet[c] = true
				}
			case "violation":
				viols = append(viols, viol{rec.Signature, rec.Detail, rec.Replay, rec.Seed})
			case "infra":
				infra = append(infra, fmt.Sprintf("worker %d seed %d: %s", i, rec.Seed, rec.Infra))
			}
		}
		if r.timedOut {
			infra = append(infra, fmt.Sprintf("worker %d: watchdog: no result within the deadline (seed in progress: %s)", i, r.curSeed))
			if os.Getenv("VSIM_ONE_SEED") != "" {
				os.WriteFile("/tmp/vsim-one-seed-stacks.txt", []byte(r.output), 0644)
			}
			continue
		}
		if !gotSummary {
			// the worker process died: Go fatal error or a panic outside the simulator
			tail := r.output
			if len(tail) > 3000 {
				tail = tail[len(tail)-3000:]
			}
			if pc.CrashIsViolation && r.curSeed != "" && deathInRepoCode(r.output) {
				seed, _ := strconv.ParseUint(r.curSeed, 10, 64)
				sig := prop + "/process-death/" + fatalKind(r.output)
				rf := map[string]interface{}{"property": prop, "scenario": "", "seed": seed, "signature": sig, "detail": tail, "workload": nil, "tier": tier, "note": "worker process died; replay regenerates the case from the seed"}
				name := filepath.Join(outDir("replays"), fmt.Sprintf("%s-%d-death.json", prop, seed))
				rb, _ := json.MarshalIndent(rf, "", " ")
				os.WriteFile(name, rb, 0644)
				viols = append(viols, viol{sig, tail, name, seed})
			} else {
				infra = append(infra, fmt.Sprintf("worker %d exited without a summary (seed in progress: %s): %v\n%s", i, r.curSeed, r.exitErr, tail))
			}
		}
	}
	wall := time.Since(t0).Seconds()

	// classify violations against the known-findings file
	nViol := 0
	printed := map[string]bool{}
	var knownSeen []string
	for _, v := range viols {
		isKnown := false
		var kf knownFinding
		for _, k := range known {
			if k.Status == "known" && k.Property == prop && sigMatch(k.Signature, v.sig) {
				isKnown, kf = true, k
			}
		}
		if isKnown {
			if !printed[kf.Signature] {
				printed[kf.Signature] = true
				fmt.Printf("KNOWN-FINDING: property=%s %s [signature %s; e.g. replay %s]\n", prop, kf.What, kf.Signature, v.replay)
				knownSeen = append(knownSeen, kf.Signature)
			}
			continue
		}
		if printed[v.sig] {
			continue
		}
		printed[v.sig] = true
		nViol++
		fmt.Printf("VIOLATION property=%s replay=%s\n", prop, v.replay)
		fmt.Printf("  signature: %s\n  seed: %d\n  detail: %s\n", v.sig, v.seed, firstLines(v.detail, 12))
	}
	// listed known findings that were not observed this time still print their line
	for _, k := range known {
		if k.Status == "known" && k.Property == prop && !printed[k.Signature] {
			hits := 0
			for sig, n := range agg.KnownHits {
				if sigMatch(k.Signature, sig) {
					hits += n
				}
			}
			if hits > 0 {
				fmt.Printf("KNOWN-FINDING: property=%s %s [signature %s; observed %d times in this run]\n", prop, k.What, k.Signature, hits)
				knownSeen = append(knownSeen, k.Signature)
			} else {
				fmt.Printf("KNOWN-FINDING: property=%s %s [signature %s; not re-observed in this run]\n", prop, k.What, k.Signature)
			}
		}
	}

	var real, stub []string
	for c := range realSet {
		real = append(real, c)
	}
	for c := range stubSet {
		stub = append(stub, c)
	}
	sort.Strings(real)
	sort.Strings(stub)
	faults := map[string]int{}
	for k, v := range agg.Counters {
		if strings.HasPrefix(k, "fault:") {
			faults[strings.TrimPrefix(k, "fault:")] = v
		}
	}
	var samples []interface{}
	for _, s := range agg.Samples {
		var v interface{}
		json.Unmarshal(s, &v)
		samples = append(samples, v)
	}
	if len(samples) == 0 {
		samples = append(samples, "no run completed")
	}
	cov := map[string]interface{}{
		"evaluations":         agg.Runs,
		"distinct_nontrivial": len(fps),
		"rule":                pc.Rule,
		"samples":             samples,
		"runs_per_hour":       int(float64(agg.Runs) / maxf(wall-buildS, 0.001) * 3600),
		"seeds":               fmt.Sprintf("VERIF_SEED=%d: run seeds %d .. %d (stride over %d workers)", baseSeed, baseSeed*1000000, baseSeed*1000000+uint64(agg.Runs), len(results)),
		"scheduler_steps":     agg.Steps,
		"simulated_time_s":    float64(agg.SimTimeNs) / 1e9,
		"bubbles":             agg.Bubbles,
		"goroutines_spawned":  agg.Spawned,
		"distinct_interleavings": len(ils),
		"distinct_interleavings_measure": "distinct hashes of the full decision sequence (goroutine id, site) of a run",
		"distinct_states":     agg.States,
		"distinct_states_measure": "per run: distinct fingerprints of the parked set's sites sampled every 8 steps, summed over runs",
		"faults_and_perturbations": faults,
		"probes":              agg.Probes,
		"counters":            agg.Counters,
		"by_scenario":         agg.ByScenario,
		"inconclusive":        agg.Inconclusive,
		"known_finding_hits":  agg.KnownHits,
		"race_detector_runs":  raceRuns,
		"real_components":     real,
		"stubbed_components":  stub,
		"instrumentation":     b.report,
		"build_s":             buildS,
		"infrastructure_errors": infra,
	}
	ev := map[string]interface{}{
		"property_id": prop, "tier": tier, "seed": baseSeed, "level": pc.Level,
		"coverage": cov, "assumptions": pc.Assumptions, "wall_s": wall, "violations": nViol,
		"known_findings_observed": knownSeen,
	}
	eb, _ := json.MarshalIndent(ev, "", " ")
	os.MkdirAll(outDir("evidence"), 0755)
	if err := os.WriteFile(filepath.Join(outDir("evidence"), prop+".json"), eb, 0644); err != nil {
		die(2, "cannot write evidence: %v", err)
	}
	fmt.Printf("property=%s tier=%s runs=%d distinct_nontrivial=%d steps=%d interleavings=%d violations=%d inconclusive=%v wall=%.1fs (build %.1fs)\n",
		prop, tier, agg.Runs, len(fps), agg.Steps, len(ils), nViol, agg.Inconclusive, wall, buildS)
	if len(infra) > 0 {
		for _, m := range infra {
			fmt.Fprintf(os.Stderr, "INFRASTRUCTURE: %s\n", m)
		}
		if nViol > 0 {
			return 1
		}
		return 2
	}
	if nViol > 0 {
		return 1
	}
	if agg.Runs == 0 {
		fmt.Fprintln(os.Stderr, "INFRASTRUCTURE: no run completed")
		return 2
	}
	return 0
}

func maxf(a, b float64) float64 {
	if a > b {
		return a
	}
	return b
}

func fatalKind(out string) string {
	for _, l := range strings.Split(out, "\n") {
		if strings.HasPrefix(l, "fatal error:") || strings.HasPrefix(l, "panic:") {
			if len(l) > 80 {
				l = l[:80]
			}
			return strings.ReplaceAll(l, " ", "_")
		}
	}
	return "unknown"
}

func firstLines(s string, n int) string {
	ls := strings.Split(s, "\n")
	if len(ls) > n {
		ls = append(ls[:n], "...")
	}
	return strings.Join(ls, "\n    ")
}

func replay(file string) int {
	rb, err := os.ReadFile(file)
	if err != nil {
		die(2, "cannot read %s: %v", file, err)
	}
	var rf struct {
		Property  string `json:"property"`
		Signature string `json:"signature"`
	}
	if err := json.Unmarshal(rb, &rf); err != nil {
		die(2, "bad replay file: %v", err)
	}
	pc := props[rf.Property]
	b := prepare(pc != nil && pc.Race)
	defer os.RemoveAll(b.scratch)
	abs, _ := filepath.Abs(file)
	wd := filepath.Join(b.scratch, "work")
	os.MkdirAll(wd, 0755)
	env := []string{"VSIM_PROP=" + rf.Property, "VSIM_REPLAY=" + abs, "VSIM_WORKDIR=" + wd, "VSIM_REPLAYDIR=" + filepath.Join(b.scratch, "replays")}
	bins := []string{b.bin}
	if b.raceBin != "" {
		bins = append(bins, b.raceBin)
	}
	for i, bin := range bins {
		e := env
		if i == 1 {
			e = append(e, "VSIM_RACE=1")
		}
		r := runWorker(bin, e, filepath.Join(b.scratch, fmt.Sprintf("replay%d.jsonl", i)), 15*time.Minute)
		summary := false
		for _, rec := range r.records {
			switch rec.Kind {
			case "violation":
				same := "same signature as recorded"
				if rec.Signature != rf.Signature {
					same = "signature differs from the recorded one: " + rf.Signature
				}
				fmt.Printf("VIOLATION property=%s replay=%s\n  signature: %s (%s)\n  detail: %s\n", rf.Property, file, rec.Signature, same, firstLines(rec.Detail, 20))
				return 1
			case "infra":
				fmt.Fprintf(os.Stderr, "INFRASTRUCTURE: %s\n", rec.Infra)
				return 2
			case "summary":
				summary = true
			}
		}
		if !summary {
			if pc != nil && pc.CrashIsViolation && deathInRepoCode(r.output) {
				fmt.Printf("VIOLATION property=%s replay=%s\n  signature: %s/process-death/%s\n", rf.Property, file, rf.Property, fatalKind(r.output))
				return 1
			}
			fmt.Fprintf(os.Stderr, "INFRASTRUCTURE: replay worker died: %v\n%s\n", r.exitErr, r.output)
			return 2
		}
	}
	fmt.Printf("replay of %s: no violation on the current tree\n", file)
	return 0
}

func main() {
	if len(os.Args) < 2 {
		die(2, "usage: vsim check <PROP> [--tier quick|thorough] | replay <file> | selftest")
	}
	switch os.Args[1] {
	case "check":
		if len(os.Args) < 3 {
			die(2, "usage: vsim check <PROP> [--tier quick|thorough]")
		}
		tier := os.Getenv("VERIF_TIER")
		for i, a := range os.Args {
			if a == "--tier" && i+1 < len(os.Args) {
				tier = os.Args[i+1]
			}
		}
		if tier != "thorough" {
			tier = "quick"
		}
		os.Exit(check(os.Args[2], tier))
	case "replay":
		if len(os.Args) < 3 {
			die(2, "usage: vsim replay <file>")
		}
		os.Exit(replay(os.Args[2]))
	case "selftest":
		os.Exit(selftest())
	default:
		die(2, "unknown command %s", os.Args[1])
	}
}

// deathInRepoCode decides whether a dead worker died in repository code: the
// innermost non-runtime frame of the panicking (or fatally failing) goroutine
// must be a bmeg/grip function. A panic whose innermost frame is harness code
// is an infrastructure failure (exit 2), never a violation.
func deathInRepoCode(out string) bool {
	if !strings.Contains(out, "fatal error:") && !strings.Contains(out, "panic:") {
		return false
	}
	lines := strings.Split(out, "\n")
	start := 0
	for i, l := range lines {
		if strings.HasPrefix(l, "panic:") || strings.HasPrefix(l, "fatal error:") {
			start = i
			break
		}
	}
	inStack := false
	for _, l := range lines[start:] {
		if strings.HasPrefix(l, "goroutine ") {
			if inStack {
				break // only the first (failing) goroutine
			}
			inStack = true
			continue
		}
		if !inStack || strings.HasPrefix(l, "\t") || l == "" {
			continue
		}
		fn := l
		switch {
		case strings.HasPrefix(fn, "runtime."), strings.HasPrefix(fn, "testing."), strings.HasPrefix(fn, "panic("), strings.HasPrefix(fn, "sync."), strings.HasPrefix(fn, "internal/"), strings.HasPrefix(fn, "created by"):
			continue
		case strings.HasPrefix(fn, "verifsim/simrt."), strings.HasPrefix(fn, "verifsim/simkv."):
			continue // the simulator's wrappers around repository code
		case strings.HasPrefix(fn, "github.com/bmeg/grip/"):
			return true
		case strings.HasPrefix(fn, "verifsim/"):
			return false
		default:
			continue // third-party frame: keep looking for the caller
		}
	}
	return false
}
