package gen

import (
	"verifsim/model"
)

// HOp is one step of a mutation history (JSON: replay files).
type HOp struct {
	Op     string          `json:"op"` // addGraph delGraph addV addE batch bulk delV delE reopen
	G      string          `json:"g,omitempty"`
	V      []*model.Vertex `json:"v,omitempty"`
	E      []*model.Edge   `json:"e,omitempty"`
	ID     string          `json:"id,omitempty"`
	TickUs int             `json:"tick_us"` // simulated time that passes before the call (0 = same tick)
}

var HGraphs = []string{"g1", "g2"}

// HGraphUniverse is every graph name a history may use: HGraphs and the
// renamings below, in which one name is a string prefix of the other (index
// field names, key prefixes and schema-graph names are all derived from graph
// names by concatenation).
var HGraphUniverse = []string{"g1", "g2", "g10", "g"}

var graphRenames = []map[string]string{
	{"g1": "g1", "g2": "g10"},
	{"g1": "g10", "g2": "g1"},
	{"g1": "g", "g2": "g1"},
	{"g1": "g1", "g2": "g"},
}
var HVIDs = []string{"a", "b", "c", "d"}
var HEIDs = []string{"e1", "e2", "e3", "e4"}

func smallData(r R) map[string]interface{} {
	switch r.Intn(4) {
	case 0:
		return nil
	case 1:
		return map[string]interface{}{"x": float64(r.Intn(3))}
	case 2:
		return map[string]interface{}{"x": float64(r.Intn(3)), "s": pick(r, []string{"p", "q"})}
	}
	return map[string]interface{}{"o": map[string]interface{}{"k": pick(r, []string{"u", "w"})}, "l": []interface{}{1.0, "z"}}
}

func HVertex(r R) *model.Vertex {
	return &model.Vertex{ID: pick(r, HVIDs), Label: pick(r, VLabels), Data: smallData(r)}
}

func HEdge(r R) *model.Edge {
	e := &model.Edge{ID: pick(r, HEIDs), Label: pick(r, ELabels), From: pick(r, HVIDs), To: pick(r, HVIDs), Data: smallData(r)}
	if r.Chance(8) {
		e.To = "ghost"
	}
	return e
}

type HistOpts struct {
	MaxLen     int
	Avoid      map[string]bool // operation shapes not to emit (known findings): "delE", "readd-edge", "relabel", "reopen", ...
	Invalid    bool            // include invalid elements / names
	Reopen     bool
	SameTick   bool
	Bulk       bool
}

// History draws a mutation history over the small universe.
func History(r R, o HistOpts) []HOp {
	n := 1 + r.Intn(o.MaxLen)
	var h []HOp
	// abstract edge table per graph, only to recognise "re-adding an existing
	// edge id with other endpoints or label" when that shape is to be avoided
	type ekey struct{ g, id string }
	edges := map[ekey]*model.Edge{}
	fixEdge := func(g string, e *model.Edge) {
		if !o.Avoid["readd-edge-changed"] || e.ID == "" {
			return
		}
		if old, ok := edges[ekey{g, e.ID}]; ok {
			e.From, e.To, e.Label = old.From, old.To, old.Label
		}
	}
	track := func(op HOp) {
		switch op.Op {
		case "delGraph":
			for k := range edges {
				if k.g == op.G {
					delete(edges, k)
				}
			}
		case "delE":
			delete(edges, ekey{op.G, op.ID})
		case "delV":
			for k, e := range edges {
				if k.g == op.G && (e.From == op.ID || e.To == op.ID) {
					delete(edges, k)
				}
			}
		case "addE", "batch", "bulk":
			for _, e := range op.E {
				if e.ID != "" && e.Label != "" && e.From != "" && e.To != "" {
					c := *e
					edges[ekey{op.G, e.ID}] = &c
				}
			}
		}
	}
	tick := func() int {
		if o.SameTick && r.Chance(25) {
			return 0
		}
		return 1 + r.Intn(5000)
	}
	// most histories start by creating a graph
	if r.Chance(90) {
		h = append(h, HOp{Op: "addGraph", G: "g1", TickUs: tick()})
	}
	if r.Chance(30) {
		h = append(h, HOp{Op: "addGraph", G: "g2", TickUs: tick()})
	}
	for len(h) < n {
		g := HGraphs[0]
		if r.Chance(25) {
			g = HGraphs[1]
		}
		k := r.Intn(100)
		op := HOp{G: g, TickUs: tick()}
		switch {
		case k < 6:
			op.Op = "addGraph"
			if o.Invalid && r.Chance(25) {
				op.G = pick(r, []string{"bad name", "_g", "g/1", "-x"})
			}
		case k < 10:
			op.Op = "delGraph"
		case k < 34:
			op.Op = "addV"
			v := HVertex(r)
			if o.Invalid && r.Chance(12) {
				switch r.Intn(4) {
				case 0:
					v.ID = ""
				case 1:
					v.Label = ""
				case 2:
					v.Data = map[string]interface{}{"_gid": 1.0}
				default:
					v.Data = map[string]interface{}{"bad key": 1.0}
				}
			}
			op.V = []*model.Vertex{v}
		case k < 58:
			op.Op = "addE"
			e := HEdge(r)
			if o.Invalid && r.Chance(12) {
				switch r.Intn(4) {
				case 0:
					e.ID = ""
				case 1:
					e.Label = ""
				case 2:
					e.From = ""
				default:
					e.To = ""
				}
			}
			op.E = []*model.Edge{e}
		case k < 66:
			op.Op = "batch"
			for i := 0; i < 1+r.Intn(3); i++ {
				op.V = append(op.V, HVertex(r))
			}
			if r.Chance(50) {
				op.V = nil
				for i := 0; i < 1+r.Intn(3); i++ {
					op.E = append(op.E, HEdge(r))
				}
			}
		case k < 74:
			if !o.Bulk {
				continue
			}
			op.Op = "bulk"
			for i := 0; i < 1+r.Intn(4); i++ {
				if r.Chance(50) {
					op.V = append(op.V, HVertex(r))
				} else {
					op.E = append(op.E, HEdge(r))
				}
			}
			if o.Invalid && r.Chance(15) {
				// one invalid element in the stream: the driver-level call fails as a whole
				if len(op.V) > 0 && r.Chance(50) {
					op.V[r.Intn(len(op.V))].Label = ""
				} else if len(op.E) > 0 {
					op.E[r.Intn(len(op.E))].To = ""
				} else {
					op.V[r.Intn(len(op.V))].ID = ""
				}
			}
		case k < 84:
			op.Op = "delV"
			op.ID = pick(r, HVIDs)
		case k < 94:
			op.Op = "delE"
			op.ID = pick(r, HEIDs)
		default:
			if !o.Reopen {
				continue
			}
			op.Op = "reopen"
			op.G = ""
		}
		if o.Avoid[op.Op] {
			continue
		}
		for _, e := range op.E {
			fixEdge(op.G, e)
		}
		track(op)
		h = append(h, op)
	}
	if r.Chance(35) {
		m := graphRenames[r.Intn(len(graphRenames))]
		for i := range h {
			if n, ok := m[h[i].G]; ok {
				h[i].G = n
			}
		}
	}
	return h
}
