package gen

import (
	"fmt"

	"github.com/bmeg/grip/gripql"
	"verifsim/model"
)

// ProgOpts selects the program space.
type ProgOpts struct {
	MaxLen    int
	Oracle    bool // restrict to the subset refql models exactly (DESIGN App. A)
	NoBoth    bool
	NoTrunc   bool
	NoNull    bool
	Aggregate bool // allow a final aggregate() (not modelled by refql)
	IndexBias bool // start with V().hasLabel/hasId/has(_label/_gid) often (planner paths)
}

type pstate struct {
	typ       string
	marks     map[string]string
	order     []string
	noPath    bool // after fields/unwind: path() not generated
	noHistory bool // after distinct(_gid): no select/path/$mark
	null      bool // a *Null step happened: restricted followers
	weak      bool // after truncation / distinct(fields): only truncations then count
	done      bool
	usedHist  bool
}

func vids(g *model.GraphData, r R, n int) []string {
	var ids []string
	seen := map[string]bool{}
	for i := 0; i < n; i++ {
		var id string
		if len(g.V) > 0 && !r.Chance(15) {
			id = g.V[r.Intn(len(g.V))].ID
		} else {
			id = fmt.Sprintf("nov%d", r.Intn(2))
		}
		if !seen[id] {
			seen[id] = true
			ids = append(ids, id)
		}
	}
	return ids
}

func eids(g *model.GraphData, r R, n int) []string {
	var ids []string
	seen := map[string]bool{}
	for i := 0; i < n; i++ {
		var id string
		if len(g.E) > 0 && !r.Chance(15) {
			id = g.E[r.Intn(len(g.E))].ID
		} else {
			id = fmt.Sprintf("noe%d", r.Intn(2))
		}
		if !seen[id] {
			seen[id] = true
			ids = append(ids, id)
		}
	}
	return ids
}

func labelArgs(r R, ls []string) []string {
	switch r.Intn(4) {
	case 0:
		return []string{pick(r, ls)}
	case 1:
		return []string{ls[0], ls[2]}
	}
	return nil
}

// HasExpr draws a has-expression on the unambiguous part of the grid.
func HasExpr(r R, depth int, prefix string) *gripql.HasExpression {
	if depth > 0 && r.Chance(30) {
		switch r.Intn(3) {
		case 0:
			return gripql.And(HasExpr(r, depth-1, prefix), HasExpr(r, depth-1, prefix))
		case 1:
			return gripql.Or(HasExpr(r, depth-1, prefix), HasExpr(r, depth-1, prefix))
		default:
			return gripql.Not(HasExpr(r, depth-1, prefix))
		}
	}
	num := func() interface{} { return []interface{}{0.0, 1.0, 2.0, -1.0, 2.5, 3.0}[r.Intn(6)] }
	switch r.Intn(14) {
	case 12:
		mv := MixedValues[r.Intn(len(MixedValues))]
		if r.Chance(50) {
			return gripql.Eq(prefix+"m", mv)
		}
		return gripql.Neq(prefix+"m", mv)
	case 13:
		a, b := MixedValues[r.Intn(len(MixedValues))], MixedValues[r.Intn(len(MixedValues))]
		if r.Chance(50) {
			return gripql.Within(prefix+"m", a, b)
		}
		return gripql.Without(prefix+"m", a, b)
	case 0:
		return gripql.Eq(prefix+"n", num())
	case 1:
		return gripql.Neq(prefix+"n", num())
	case 2:
		return gripql.Gt(prefix+"n", num())
	case 3:
		return gripql.Lte(prefix+"n", num())
	case 4:
		return gripql.Eq(prefix+"s", pick(r, []string{"x", "y", ""}))
	case 5:
		return gripql.Within(prefix+"s", "x", "z")
	case 6:
		return gripql.Without(prefix+"s", "y")
	case 7:
		return gripql.Contains(prefix+"t", pick(r, []string{"p", "q"}))
	case 8:
		return gripql.Between(prefix+"n", []interface{}{0.0, 2.5})
	case 9:
		return gripql.Inside(prefix+"o.a", []interface{}{-1.0, 2.0})
	case 10:
		return gripql.Eq(prefix+"o.b", "u")
	default:
		return gripql.Gte(prefix+"o.a", 1.0)
	}
}

// Program draws a well-typed statement list.
func Program(r R, g *model.GraphData, o ProgOpts) []*gripql.GraphStatement {
	if o.MaxLen < 1 {
		o.MaxLen = 6
	}
	st := &pstate{marks: map[string]string{}}
	var p []*gripql.GraphStatement
	// start
	if r.Chance(75) {
		switch {
		case o.IndexBias && r.Chance(70):
			p = append(p, V())
			st.typ = "vertex"
			p = append(p, indexFilter(r, g))
			if r.Chance(30) {
				p = append(p, indexFilter(r, g))
			}
		case r.Chance(35):
			p = append(p, V(vids(g, r, 1+r.Intn(3))...))
			st.typ = "vertex"
		default:
			p = append(p, V())
			st.typ = "vertex"
		}
	} else {
		if r.Chance(35) {
			p = append(p, E(eids(g, r, 1+r.Intn(3))...))
		} else {
			p = append(p, E())
		}
		st.typ = "edge"
	}
	n := 1 + r.Intn(o.MaxLen)
	for len(p) < n+1 && !st.done {
		s := step(r, g, o, st)
		if s == nil {
			break
		}
		p = append(p, s)
	}
	return p
}

func indexFilter(r R, g *model.GraphData) *gripql.GraphStatement {
	switch r.Intn(16) {
	// a value named twice: a filter keeps a row once however often its id or
	// label is listed
	case 12:
		ids := vids(g, r, 1)
		return HasID(ids[0], ids[0])
	case 13:
		ids := vids(g, r, 2)
		return Has(gripql.Within("_gid", ids[0], ids[len(ids)-1], ids[0]))
	case 14:
		l := pick(r, VLabels)
		return HasLabel(l, l)
	case 15:
		l := pick(r, VLabels)
		return Has(gripql.Within("_label", l, VLabels[0], l))
	// filters on the id/label that no lookup can serve (negations, values of
	// another kind): the rewrite must leave them in place
	case 7:
		return Has(gripql.Neq("_label", pick(r, VLabels)))
	case 8:
		return Has(gripql.Without("_label", VLabels[0], VLabels[1]))
	case 9:
		ids := vids(g, r, 1)
		return Has(gripql.Neq("_gid", ids[0]))
	case 10:
		return Has(gripql.Without("_gid", toIfaces(vids(g, r, 2))...))
	case 11:
		return Has(gripql.And(gripql.Neq("_label", pick(r, VLabels)), gripql.Within("_label", VLabels[0], VLabels[1])))
	case 0:
		return HasLabel(pick(r, VLabels))
	case 1:
		return HasLabel(VLabels[0], VLabels[1])
	case 2:
		return Has(gripql.Eq("_label", pick(r, VLabels)))
	case 3:
		return Has(gripql.Within("_label", VLabels[0], VLabels[2]))
	case 4:
		return HasID(vids(g, r, 1+r.Intn(2))...)
	case 5:
		ids := vids(g, r, 1)
		return Has(gripql.Eq("_gid", ids[0]))
	default:
		return Has(gripql.And(gripql.Eq("_label", pick(r, VLabels)), HasExpr(r, 0, pick(r, []string{"", "", "_data."}))))
	}
}

func step(r R, g *model.GraphData, o ProgOpts, st *pstate) *gripql.GraphStatement {
	switch st.typ {
	case "count", "selection", "render", "path", "aggregation":
		if o.Oracle {
			st.done = true
			return nil
		}
		// only truncations / count may follow a non-element type
		switch r.Intn(3) {
		case 0:
			return Limit(uint32(r.Intn(4)))
		case 1:
			st.typ = "count"
			return Count()
		}
		st.done = true
		return nil
	}
	if st.weak {
		if r.Chance(25) {
			st.typ = "count"
			st.done = true
			return Count()
		}
		if r.Chance(40) {
			st.done = true
			return nil
		}
		return truncStep(r)
	}
	if st.null {
		// after a null-producing step: as / select(earlier mark) / count only
		switch r.Intn(3) {
		case 0:
			st.typ = "count"
			st.done = true
			return Count()
		case 1:
			if len(st.order) > 0 {
				m := st.order[r.Intn(len(st.order))]
				st.typ = st.marks[m]
				st.null = false
				st.usedHist = true
				return Select(m)
			}
		}
		st.done = true
		return nil
	}
	for tries := 0; tries < 20; tries++ {
		k := r.Intn(100)
		switch {
		case k < 30: // moves
			mv := r.Intn(6)
			if st.typ == "edge" {
				st.typ = "vertex"
				switch mv % 3 {
				case 0:
					return Out()
				case 1:
					return In()
				default:
					if o.NoBoth {
						return Out()
					}
					return Both()
				}
			}
			ls := labelArgs(r, ELabels)
			switch mv {
			case 0:
				return Out(ls...)
			case 1:
				return In(ls...)
			case 2:
				if o.NoBoth {
					return In(ls...)
				}
				return Both(ls...)
			case 3:
				st.typ = "edge"
				return OutE(ls...)
			case 4:
				st.typ = "edge"
				return InE(ls...)
			default:
				st.typ = "edge"
				if o.NoBoth {
					return OutE(ls...)
				}
				return BothE(ls...)
			}
		case k < 34:
			if o.NoNull || st.typ != "vertex" {
				continue
			}
			st.null = true
			ls := labelArgs(r, ELabels)
			switch r.Intn(4) {
			case 0:
				return OutNull(ls...)
			case 1:
				return InNull(ls...)
			case 2:
				st.typ = "edge"
				return OutENull(ls...)
			default:
				st.typ = "edge"
				return InENull(ls...)
			}
		case k < 46:
			pre := ""
			if len(st.order) > 0 && !st.noHistory && r.Chance(25) {
				pre = "$" + st.order[r.Intn(len(st.order))] + "."
				st.usedHist = true
			}
			if r.Chance(15) {
				// the explicit spelling of a property path (jsonpath.md: `_data.type`)
				pre += "_data."
			}
			return Has(HasExpr(r, 1, pre))
		case k < 52:
			if st.typ == "vertex" {
				return HasLabel(labelArgsNonEmpty(r, VLabels)...)
			}
			return HasLabel(labelArgsNonEmpty(r, ELabels)...)
		case k < 56:
			if st.typ == "vertex" {
				return HasID(vids(g, r, 1+r.Intn(3))...)
			}
			return HasID(eids(g, r, 1+r.Intn(3))...)
		case k < 60:
			return HasKey([]string{"n", "s", "t", "o", "o.a"}[r.Intn(5)])
		case k < 68:
			name := fmt.Sprintf("m%d", len(st.order))
			st.marks[name] = st.typ
			st.order = append(st.order, name)
			return As(name)
		case k < 73:
			if len(st.order) == 0 || st.noHistory {
				continue
			}
			st.usedHist = true
			if len(st.order) >= 2 && r.Chance(40) {
				st.typ = "selection"
				st.done = o.Oracle
				a := st.order[r.Intn(len(st.order))]
				b := st.order[r.Intn(len(st.order))]
				if a == b {
					b = st.order[(r.Intn(len(st.order))+1)%len(st.order)]
				}
				if a == b {
					continue
				}
				return Select(a, b)
			}
			m := st.order[r.Intn(len(st.order))]
			st.typ = st.marks[m]
			return Select(m)
		case k < 78:
			st.noPath = true
			switch r.Intn(4) {
			case 0:
				return Fields()
			case 1:
				return Fields("n", "s")
			case 2:
				return Fields("-t", "-o")
			default:
				return Fields("nonexistent")
			}
		case k < 82:
			st.typ = "render"
			tm := []interface{}{
				"_gid",
				map[string]interface{}{"id": "_gid", "l": "_label", "n": "n"},
				[]interface{}{"s", "o.a"},
				map[string]interface{}{"d": "_data"},
			}
			t := tm[r.Intn(len(tm))]
			if len(st.order) > 0 && !st.noHistory && r.Chance(40) {
				m := st.order[r.Intn(len(st.order))]
				t = map[string]interface{}{"cur": "_gid", "m": "$" + m + "._gid", "mn": "$" + m + ".n"}
				st.usedHist = true
			}
			return Render(t)
		case k < 85:
			if st.noPath || st.noHistory {
				continue
			}
			st.typ = "path"
			st.usedHist = true
			return Path()
		case k < 88:
			if o.Oracle {
				continue // unwind needs "non-empty list on every traveler": generated by the C01 scenario on purpose-built data only
			}
			st.noPath = true
			return Unwind("t")
		case k < 92:
			if r.Chance(60) {
				if st.usedHist && o.Oracle {
					// distinct(_gid) stays exact only when nothing later looks at history;
					// forbid history from here on
				}
				st.noHistory = true
				if r.Chance(50) {
					return Distinct()
				}
				return Distinct("_gid")
			}
			st.weak = true
			f := [][]string{{"s"}, {"n"}, {"_label"}, {"s", "n"}, {"o.a"}}[r.Intn(5)]
			return Distinct(f...)
		case k < 96:
			st.typ = "count"
			return Count()
		default:
			if o.NoTrunc {
				continue
			}
			st.weak = true
			return truncStep(r)
		}
	}
	return nil
}

func labelArgsNonEmpty(r R, ls []string) []string {
	if r.Chance(70) {
		return []string{pick(r, ls)}
	}
	return []string{ls[1], ls[2]}
}

func truncStep(r R) *gripql.GraphStatement {
	switch r.Intn(5) {
	case 4:
		// an empty window: stop at or below start
		a := int32(1 + r.Intn(4))
		return Range(a, a-int32(r.Intn(int(a)+1)))
	case 0:
		return Limit(uint32(r.Intn(5)))
	case 1:
		return Skip(uint32(r.Intn(4)))
	case 2:
		a := int32(r.Intn(3))
		return Range(a, a+int32(r.Intn(4)))
	default:
		return Range(int32(r.Intn(3)), -1)
	}
}

func toIfaces(ss []string) []interface{} {
	out := make([]interface{}, len(ss))
	for i, x := range ss {
		out[i] = x
	}
	return out
}
