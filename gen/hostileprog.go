package gen

import (
	"math"

	"github.com/bmeg/grip/gripql"
	"google.golang.org/protobuf/types/known/structpb"
	"verifsim/model"
)

// Hostile request generation for C06: structurally valid protobuf,
// semantically arbitrary.

func hostileJSON(r R, depth int) interface{} {
	switch r.Intn(14) {
	case 0:
		return nil
	case 1:
		return true
	case 2:
		return "x"
	case 3:
		return ""
	case 4:
		return 1.0
	case 5:
		return -1.0
	case 6:
		return math.MaxFloat64
	case 7:
		return []interface{}{}
	case 8:
		return []interface{}{1.0}
	case 9:
		return []interface{}{"a", 1.0, nil}
	case 10:
		return map[string]interface{}{}
	case 11:
		if depth > 0 {
			return []interface{}{hostileJSON(r, depth-1), hostileJSON(r, depth-1)}
		}
		return "1"
	case 12:
		if depth > 0 {
			return map[string]interface{}{"k": hostileJSON(r, depth-1)}
		}
		return "2.5"
	}
	return []interface{}{1.0, 2.0, 3.0}
}

var hostileKeys = []string{"n", "s", "t", "o", "o.a", "_gid", "_label", "_data", "_from", "_to", "$m0.n", "$nomark.n", "$", "", ".", "$.", "a..b", "$m0", "_gid.x", "t.0"}

// HostileHas draws a has-expression with arbitrary operand kinds.
func HostileHas(r R, depth int) *gripql.HasExpression {
	if depth > 0 && r.Chance(25) {
		switch r.Intn(4) {
		case 0:
			return gripql.And(HostileHas(r, depth-1), HostileHas(r, depth-1))
		case 1:
			return gripql.Or()
		case 2:
			return gripql.Not(HostileHas(r, depth-1))
		default:
			return &gripql.HasExpression{} // no expression at all
		}
	}
	if r.Chance(12) {
		// a list or an object on both sides of a membership/equality test: the
		// operand mirrors the shape of what the elements store under that key
		key := pick(r, []string{"t", "o", "_data", "$m0.t", "o.a", "l"})
		var operand interface{}
		switch r.Intn(5) {
		case 0:
			operand = []interface{}{[]interface{}{"p", "q"}}
		case 1:
			operand = []interface{}{map[string]interface{}{"a": 1.0}, []interface{}{}}
		case 2:
			operand = []interface{}{"p", []interface{}{"p"}, map[string]interface{}{}}
		case 3:
			operand = map[string]interface{}{"a": 1.0}
		default:
			operand = []interface{}{[]interface{}{[]interface{}{}}}
		}
		pv, _ := structpb.NewValue(operand)
		cond := []gripql.Condition{gripql.Condition_WITHIN, gripql.Condition_WITHOUT, gripql.Condition_CONTAINS, gripql.Condition_EQ, gripql.Condition_NEQ}[r.Intn(5)]
		return &gripql.HasExpression{Expression: &gripql.HasExpression_Condition{Condition: &gripql.HasCondition{Key: key, Value: pv, Condition: cond}}}
	}
	v, _ := structpb.NewValue(hostileJSON(r, 2))
	if r.Chance(5) {
		v = nil
	}
	return &gripql.HasExpression{Expression: &gripql.HasExpression_Condition{Condition: &gripql.HasCondition{
		Key: pick(r, hostileKeys), Value: v, Condition: gripql.Condition(r.Intn(14)),
	}}}
}

func hostileAgg(r R, i int) *gripql.Aggregate {
	name := []string{"a", "a", "b", ""}[r.Intn(4)] // duplicates and empty names on purpose
	f := pick(r, hostileKeys)
	switch r.Intn(8) {
	case 0:
		return &gripql.Aggregate{Name: name, Aggregation: &gripql.Aggregate_Term{Term: &gripql.TermAggregation{Field: f, Size: uint32(r.Intn(3))}}}
	case 1:
		return &gripql.Aggregate{Name: name, Aggregation: &gripql.Aggregate_Histogram{Histogram: &gripql.HistogramAggregation{Field: f, Interval: uint32(r.Intn(3))}}} // interval 0 possible
	case 2:
		return &gripql.Aggregate{Name: name, Aggregation: &gripql.Aggregate_Percentile{Percentile: &gripql.PercentileAggregation{Field: f, Percents: [][]float64{nil, {50}, {-5, 150}, {math.NaN()}}[r.Intn(4)]}}}
	case 3:
		return &gripql.Aggregate{Name: name, Aggregation: &gripql.Aggregate_Field{Field: &gripql.FieldAggregation{Field: f}}}
	case 4:
		return &gripql.Aggregate{Name: name, Aggregation: &gripql.Aggregate_Type{Type: &gripql.TypeAggregation{Field: f}}}
	case 5:
		return &gripql.Aggregate{Name: name, Aggregation: &gripql.Aggregate_Count{Count: &gripql.CountAggregation{}}}
	case 6:
		return &gripql.Aggregate{Name: name} // no aggregation set
	}
	return &gripql.Aggregate{Name: name, Aggregation: &gripql.Aggregate_Term{Term: nil}}
}

func hostileStep(r R, g *model.GraphData) *gripql.GraphStatement {
	return hostileStepK(r, g, r.Intn(hostileKinds))
}

const hostileKinds = 40

// themes: step kinds that interact (swarm testing: a program drawn from a few
// kinds reaches their combinations far more often than a uniform draw over 40)
var hostileThemes = [][]int{
	{8, 9, 10, 11, 17, 17, 18, 19, 21, 22, 23, 24, 2, 5, 26, 25}, // null travelers, marks, projections
	{31, 31, 31, 12, 26, 25, 27, 8, 17},                           // aggregations
	{34, 35, 35, 32, 33, 12, 2, 17, 18},                           // loops and counters
	{12, 13, 14, 15, 16, 37, 36, 0, 1},                            // filters and starts
}

func hostileStepK(r R, g *model.GraphData, kind int) *gripql.GraphStatement {
	ls := func() []string {
		switch r.Intn(4) {
		case 0:
			return nil
		case 1:
			return []string{""}
		}
		return []string{pick(r, ELabels), "nolabel"}
	}
	switch kind {
	case 0:
		return V(vids(g, r, 2)...)
	case 1:
		return E(eids(g, r, 2)...)
	case 2:
		return Out(ls()...)
	case 3:
		return In(ls()...)
	case 4:
		return Both(ls()...)
	case 5:
		return OutE(ls()...)
	case 6:
		return InE(ls()...)
	case 7:
		return BothE(ls()...)
	case 8:
		return OutNull(ls()...)
	case 9:
		return InNull(ls()...)
	case 10:
		return OutENull(ls()...)
	case 11:
		return InENull(ls()...)
	case 12, 13:
		return Has(HostileHas(r, 2))
	case 14:
		return HasLabel(ls()...)
	case 15:
		return HasID(ls()...)
	case 16:
		return HasKey(pick(r, hostileKeys))
	case 17:
		return As(pick(r, []string{"m0", "m0", "m0", "m0", "m1", "m1", "", "$x", "_gid", "__current__", "a b"}))
	case 18:
		return Select(pick(r, []string{"m0", "m0", "m1", "nomark", ""}))
	case 19:
		return Select("m0", pick(r, []string{"m1", "nomark"}))
	case 20:
		return &gripql.GraphStatement{Statement: &gripql.GraphStatement_Select{Select: &gripql.SelectStatement{}}}
	case 21:
		return Fields(pick(r, hostileKeys), "-"+pick(r, hostileKeys))
	case 22:
		return Render(hostileJSON(r, 3))
	case 23:
		return Render(map[string]interface{}{"a": pick(r, hostileKeys), "b": []interface{}{pick(r, hostileKeys), 1.0, nil}})
	case 24:
		return Path()
	case 25:
		return Unwind(pick(r, hostileKeys))
	case 26:
		return Distinct(pick(r, hostileKeys), pick(r, hostileKeys))
	case 27:
		return Count()
	case 28:
		return Limit(uint32(r.Intn(3)))
	case 29:
		return Skip(uint32(r.Intn(3)))
	case 30:
		return Range(int32(r.Intn(7)-3), int32(r.Intn(7)-3))
	case 31:
		n := r.Intn(3)
		var as []*gripql.Aggregate
		for i := 0; i < n; i++ {
			as = append(as, hostileAgg(r, i))
		}
		return Aggregate(as...)
	case 32:
		return SetStmt(pick(r, hostileKeys), hostileJSON(r, 2))
	case 33:
		return Increment(pick(r, hostileKeys), int32(r.Intn(5)-2))
	case 34:
		return Mark(pick(r, []string{"a", "b", ""}))
	case 35:
		var c *gripql.HasExpression
		if r.Chance(50) {
			c = HostileHas(r, 1)
		}
		return Jump(pick(r, []string{"a", "missing", ""}), c, r.Chance(50))
	case 36:
		return &gripql.GraphStatement{} // empty statement
	case 37:
		return &gripql.GraphStatement{Statement: &gripql.GraphStatement_Has{}} // nil expression
	case 38:
		return &gripql.GraphStatement{Statement: &gripql.GraphStatement_Render{}}
	}
	return &gripql.GraphStatement{Statement: &gripql.GraphStatement_Aggregate{}}
}

// HostileProgram draws a statement list: a typed program with hostile steps
// spliced in, or hostile steps only.
func HostileProgram(r R, g *model.GraphData) []*gripql.GraphStatement {
	var p []*gripql.GraphStatement
	if r.Chance(70) {
		p = Program(r, g, ProgOpts{MaxLen: 5})
		n := 1 + r.Intn(3)
		for i := 0; i < n; i++ {
			pos := 1 + r.Intn(len(p))
			s := hostileStep(r, g)
			p = append(p[:pos], append([]*gripql.GraphStatement{s}, p[pos:]...)...)
		}
	} else {
		n := r.Intn(5)
		if r.Chance(80) {
			p = append(p, V())
		}
		var kinds []int
		switch k := r.Intn(10); {
		case k < 4:
			kinds = hostileThemes[r.Intn(len(hostileThemes))]
			n = 1 + r.Intn(6)
		case k < 7:
			for i := 0; i < 3+r.Intn(4); i++ {
				kinds = append(kinds, r.Intn(hostileKinds))
			}
			n = 1 + r.Intn(6)
		}
		for i := 0; i < n; i++ {
			if kinds != nil {
				p = append(p, hostileStepK(r, g, kinds[r.Intn(len(kinds))]))
			} else {
				p = append(p, hostileStep(r, g))
			}
		}
	}
	// loops must stay finite: a jump is only kept when a counter bounds it
	hasJump := false
	for _, s := range p {
		if _, ok := s.Statement.(*gripql.GraphStatement_Jump); ok {
			hasJump = true
		}
	}
	if hasJump {
		p = append(p, Limit(5))
	}
	return p
}

// HostileCombo draws a short program of the form
//
//	start [as(m0)] state-changer step step [step]
//
// where the state changer leaves the traveler in one of the unusual states
// (no current element, a rendered value, a count, a path, an aggregation, a
// selection, an unwound or projected element) and the following steps are
// drawn from one theme. The space is small enough for a run to meet the same
// (state, step, step) combination with several argument choices.
func HostileCombo(r R, g *model.GraphData) []*gripql.GraphStatement {
	var p []*gripql.GraphStatement
	if r.Chance(80) {
		p = append(p, V())
	} else {
		p = append(p, E())
	}
	marked := false
	if r.Chance(50) {
		p = append(p, As("m0"))
		marked = true
	}
	nl := func() []string {
		if r.Chance(60) {
			return []string{"nolabel"}
		}
		return nil
	}
	switch r.Intn(16) {
	case 0:
		p = append(p, OutNull(nl()...))
	case 1:
		p = append(p, InNull(nl()...))
	case 2:
		p = append(p, OutENull(nl()...))
	case 3:
		p = append(p, InENull(nl()...))
	case 4:
		p = append(p, Render(map[string]interface{}{"a": pick(r, hostileKeys)}))
	case 5:
		p = append(p, Count())
	case 6:
		p = append(p, Path())
	case 7:
		p = append(p, Aggregate(hostileAgg(r, 0)))
	case 8:
		p = append(p, Fields(pick(r, hostileKeys)))
	case 9:
		if marked {
			p = append(p, Select("m0"))
		} else {
			p = append(p, As("m0"), Out(), Select("m0"))
		}
	case 10:
		p = append(p, Unwind(pick(r, hostileKeys)))
	case 11:
		p = append(p, Distinct(pick(r, hostileKeys)))
	case 12:
		p = append(p, OutE())
	case 13:
		p = append(p, Out())
	case 14:
		p = append(p, OutNull(nl()...), As("m1"))
	}
	kinds := hostileThemes[0]
	if r.Chance(40) {
		kinds = hostileThemes[r.Intn(len(hostileThemes))]
	}
	n := 2 + r.Intn(2)
	hasJump := false
	for i := 0; i < n; i++ {
		s := hostileStepK(r, g, kinds[r.Intn(len(kinds))])
		if _, ok := s.Statement.(*gripql.GraphStatement_Jump); ok {
			hasJump = true
		}
		p = append(p, s)
	}
	if hasJump {
		p = append(p, Limit(5))
	}
	return p
}
