// Package gen holds the seeded generators: graphs, GripQL programs, histories.
package gen

import (
	"fmt"

	"github.com/bmeg/grip/gripql"
	"github.com/bmeg/grip/util/protoutil"
	"google.golang.org/protobuf/encoding/protojson"
	"google.golang.org/protobuf/types/known/structpb"
	"verifsim/model"
)

// R is the random source the generators draw from (scen.Rng implements it).
type R interface {
	Intn(n int) int
	Chance(p int) bool
}

var VLabels = []string{"A", "B", "C"}
var ELabels = []string{"k", "l", "m"}

func pick(r R, xs []string) string { return xs[r.Intn(len(xs))] }

// Value domain of generated properties.
func genData(r R) map[string]interface{} {
	d := map[string]interface{}{}
	if r.Chance(75) {
		d["n"] = []interface{}{0.0, 1.0, 2.0, 3.0, -1.0, 2.5, -0.5, 10.0}[r.Intn(8)]
	}
	if r.Chance(60) {
		d["s"] = pick(r, []string{"x", "y", "z", "", "x y"})
	}
	if r.Chance(40) {
		n := r.Intn(4)
		l := []interface{}{}
		for i := 0; i < n; i++ {
			l = append(l, pick(r, []string{"p", "q", "r"}))
		}
		d["t"] = l
	}
	if r.Chance(35) {
		o := map[string]interface{}{"a": float64(r.Intn(3))}
		if r.Chance(50) {
			o["b"] = pick(r, []string{"u", "w"})
		}
		d["o"] = o
	}
	if r.Chance(15) {
		d["f"] = r.Chance(50)
	}
	if r.Chance(10) {
		d["z"] = nil
	}
	if r.Chance(25) {
		// one field holding values of different kinds that look alike
		d["m"] = MixedValues[r.Intn(len(MixedValues))]
	}
	return d
}

// MixedValues look alike across kinds: equality must not coerce them.
var MixedValues = []interface{}{"1", 1.0, "01", "1.0", true, "true", 0.0, "0", false, "", "x"}

type GraphOpts struct {
	MaxV, MaxE int
	NoDangling bool
	NoData     bool
}

// Graph draws a small graph with self loops, parallel edges, dangling
// endpoints, isolated vertices, nested/list/null/bool/number values.
func Graph(r R, o GraphOpts) *model.GraphData {
	g := &model.GraphData{}
	nv := r.Intn(o.MaxV + 1)
	for i := 0; i < nv; i++ {
		v := &model.Vertex{ID: fmt.Sprintf("v%d", i), Label: pick(r, VLabels)}
		if !o.NoData {
			v.Data = genData(r)
		}
		g.V = append(g.V, v)
	}
	ne := 0
	if nv > 0 || !o.NoDangling {
		ne = r.Intn(o.MaxE + 1)
	}
	for i := 0; i < ne; i++ {
		ep := func() string {
			if !o.NoDangling && (nv == 0 || r.Chance(8)) {
				return fmt.Sprintf("ghost%d", r.Intn(2))
			}
			return fmt.Sprintf("v%d", r.Intn(nv))
		}
		e := &model.Edge{ID: fmt.Sprintf("e%d", i), Label: pick(r, ELabels), From: ep(), To: ep()}
		if nv > 0 && r.Chance(10) {
			e.To = e.From // self loop
		}
		if i > 0 && r.Chance(15) { // parallel edge
			p := g.E[r.Intn(len(g.E))]
			e.From, e.To = p.From, p.To
		}
		if !o.NoData {
			e.Data = genData(r)
		}
		g.E = append(g.E, e)
	}
	return g
}

// ---------------------------------------------------------------------------
// statements as JSON (replay files)

// StmtsJSON renders statements with protojson (one string per statement).
func StmtsJSON(stmts []*gripql.GraphStatement) []string {
	out := make([]string, len(stmts))
	for i, s := range stmts {
		b, err := protojson.Marshal(s)
		if err != nil {
			out[i] = "<" + err.Error() + ">"
			continue
		}
		out[i] = string(b)
	}
	return out
}

// StmtsFromJSON parses what StmtsJSON wrote.
func StmtsFromJSON(js []string) ([]*gripql.GraphStatement, error) {
	out := make([]*gripql.GraphStatement, len(js))
	for i, s := range js {
		st := &gripql.GraphStatement{}
		if err := protojson.Unmarshal([]byte(s), st); err != nil {
			return nil, fmt.Errorf("statement %d: %v", i, err)
		}
		out[i] = st
	}
	return out, nil
}

func lst(ss ...string) *structpb.ListValue { return protoutil.NewListFromStrings(ss) }

func S(st interface{}) *gripql.GraphStatement {
	switch x := st.(type) {
	case *gripql.GraphStatement_V:
		return &gripql.GraphStatement{Statement: x}
	}
	return nil
}

// Convenience constructors.
func V(ids ...string) *gripql.GraphStatement {
	return &gripql.GraphStatement{Statement: &gripql.GraphStatement_V{V: lst(ids...)}}
}
func E(ids ...string) *gripql.GraphStatement {
	return &gripql.GraphStatement{Statement: &gripql.GraphStatement_E{E: lst(ids...)}}
}
func Out(l ...string) *gripql.GraphStatement {
	return &gripql.GraphStatement{Statement: &gripql.GraphStatement_Out{Out: lst(l...)}}
}
func In(l ...string) *gripql.GraphStatement {
	return &gripql.GraphStatement{Statement: &gripql.GraphStatement_In{In: lst(l...)}}
}
func Both(l ...string) *gripql.GraphStatement {
	return &gripql.GraphStatement{Statement: &gripql.GraphStatement_Both{Both: lst(l...)}}
}
func OutE(l ...string) *gripql.GraphStatement {
	return &gripql.GraphStatement{Statement: &gripql.GraphStatement_OutE{OutE: lst(l...)}}
}
func InE(l ...string) *gripql.GraphStatement {
	return &gripql.GraphStatement{Statement: &gripql.GraphStatement_InE{InE: lst(l...)}}
}
func BothE(l ...string) *gripql.GraphStatement {
	return &gripql.GraphStatement{Statement: &gripql.GraphStatement_BothE{BothE: lst(l...)}}
}
func OutNull(l ...string) *gripql.GraphStatement {
	return &gripql.GraphStatement{Statement: &gripql.GraphStatement_OutNull{OutNull: lst(l...)}}
}
func InNull(l ...string) *gripql.GraphStatement {
	return &gripql.GraphStatement{Statement: &gripql.GraphStatement_InNull{InNull: lst(l...)}}
}
func OutENull(l ...string) *gripql.GraphStatement {
	return &gripql.GraphStatement{Statement: &gripql.GraphStatement_OutENull{OutENull: lst(l...)}}
}
func InENull(l ...string) *gripql.GraphStatement {
	return &gripql.GraphStatement{Statement: &gripql.GraphStatement_InENull{InENull: lst(l...)}}
}
func Has(h *gripql.HasExpression) *gripql.GraphStatement {
	return &gripql.GraphStatement{Statement: &gripql.GraphStatement_Has{Has: h}}
}
func HasLabel(l ...string) *gripql.GraphStatement {
	return &gripql.GraphStatement{Statement: &gripql.GraphStatement_HasLabel{HasLabel: lst(l...)}}
}
func HasID(l ...string) *gripql.GraphStatement {
	return &gripql.GraphStatement{Statement: &gripql.GraphStatement_HasId{HasId: lst(l...)}}
}
func HasKey(l ...string) *gripql.GraphStatement {
	return &gripql.GraphStatement{Statement: &gripql.GraphStatement_HasKey{HasKey: lst(l...)}}
}
func As(n string) *gripql.GraphStatement {
	return &gripql.GraphStatement{Statement: &gripql.GraphStatement_As{As: n}}
}
func Select(m ...string) *gripql.GraphStatement {
	return &gripql.GraphStatement{Statement: &gripql.GraphStatement_Select{Select: &gripql.SelectStatement{Marks: m}}}
}
func Fields(k ...string) *gripql.GraphStatement {
	return &gripql.GraphStatement{Statement: &gripql.GraphStatement_Fields{Fields: lst(k...)}}
}
func Render(t interface{}) *gripql.GraphStatement {
	v, _ := structpb.NewValue(t)
	return &gripql.GraphStatement{Statement: &gripql.GraphStatement_Render{Render: v}}
}
func Path() *gripql.GraphStatement {
	return &gripql.GraphStatement{Statement: &gripql.GraphStatement_Path{Path: lst()}}
}
func Unwind(f string) *gripql.GraphStatement {
	return &gripql.GraphStatement{Statement: &gripql.GraphStatement_Unwind{Unwind: f}}
}
func Distinct(f ...string) *gripql.GraphStatement {
	return &gripql.GraphStatement{Statement: &gripql.GraphStatement_Distinct{Distinct: lst(f...)}}
}
func Count() *gripql.GraphStatement {
	return &gripql.GraphStatement{Statement: &gripql.GraphStatement_Count{Count: ""}}
}
func Limit(n uint32) *gripql.GraphStatement {
	return &gripql.GraphStatement{Statement: &gripql.GraphStatement_Limit{Limit: n}}
}
func Skip(n uint32) *gripql.GraphStatement {
	return &gripql.GraphStatement{Statement: &gripql.GraphStatement_Skip{Skip: n}}
}
func Range(a, b int32) *gripql.GraphStatement {
	return &gripql.GraphStatement{Statement: &gripql.GraphStatement_Range{Range: &gripql.Range{Start: a, Stop: b}}}
}
func Aggregate(aggs ...*gripql.Aggregate) *gripql.GraphStatement {
	return &gripql.GraphStatement{Statement: &gripql.GraphStatement_Aggregate{Aggregate: &gripql.Aggregations{Aggregations: aggs}}}
}

// StmtsOf builds a statement list.
func StmtsOf(s ...*gripql.GraphStatement) []*gripql.GraphStatement { return s }
