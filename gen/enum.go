package gen

import (
	"github.com/bmeg/grip/gripql"
)

// Enumeration of the bounded program space: every statement list
// START . s1 . s2 . s3 (length <= 4) over a fixed alphabet of concrete step
// instances. Index -> program is a bijection onto the space, so a tier that
// runs >= EnumSize() consecutive indices has covered the space completely.

type enumStep struct {
	name string
	mk   func() *gripql.GraphStatement
}

var enumStarts = []enumStep{
	{"V()", func() *gripql.GraphStatement { return V() }},
	{"E()", func() *gripql.GraphStatement { return E() }},
	{"V(v0,v1)", func() *gripql.GraphStatement { return V("v0", "v1") }},
	{"E(e0,e1)", func() *gripql.GraphStatement { return E("e0", "e1") }},
}

var enumAlphabet = []enumStep{
	{"out()", func() *gripql.GraphStatement { return Out() }},
	{"in()", func() *gripql.GraphStatement { return In() }},
	{"both()", func() *gripql.GraphStatement { return Both() }},
	{"out(k)", func() *gripql.GraphStatement { return Out("k") }},
	{"outE()", func() *gripql.GraphStatement { return OutE() }},
	{"inE(k,l)", func() *gripql.GraphStatement { return InE("k", "l") }},
	{"bothE()", func() *gripql.GraphStatement { return BothE() }},
	{"has(n>1)", func() *gripql.GraphStatement { return Has(gripql.Gt("n", 1.0)) }},
	{"has(s=x)", func() *gripql.GraphStatement { return Has(gripql.Eq("s", "x")) }},
	{"hasLabel(A)", func() *gripql.GraphStatement { return HasLabel("A") }},
	{"hasLabel(k)", func() *gripql.GraphStatement { return HasLabel("k") }},
	{"hasId(v0,v2)", func() *gripql.GraphStatement { return HasID("v0", "v2") }},
	{"hasKey(n)", func() *gripql.GraphStatement { return HasKey("n") }},
	{"as(a)", func() *gripql.GraphStatement { return As("a") }},
	{"select(a)", func() *gripql.GraphStatement { return Select("a") }},
	{"fields(n)", func() *gripql.GraphStatement { return Fields("n") }},
	{"fields(-s)", func() *gripql.GraphStatement { return Fields("-s") }},
	{"render", func() *gripql.GraphStatement { return Render(map[string]interface{}{"i": "_gid", "n": "n"}) }},
	{"path()", func() *gripql.GraphStatement { return Path() }},
	{"distinct()", func() *gripql.GraphStatement { return Distinct() }},
	{"distinct(s)", func() *gripql.GraphStatement { return Distinct("s") }},
	{"count()", func() *gripql.GraphStatement { return Count() }},
	{"limit(2)", func() *gripql.GraphStatement { return Limit(2) }},
	{"skip(1)", func() *gripql.GraphStatement { return Skip(1) }},
	{"range(1,3)", func() *gripql.GraphStatement { return Range(1, 3) }},
}

// EnumSize is the size of the bounded space (lengths 1..3 after the start).
func EnumSize() int {
	a := len(enumAlphabet)
	return len(enumStarts) * (a + a*a + a*a*a)
}

// EnumProgram decodes an index of the bounded space.
func EnumProgram(idx int) ([]*gripql.GraphStatement, string) {
	idx %= EnumSize()
	a := len(enumAlphabet)
	per := a + a*a + a*a*a
	start := enumStarts[idx/per]
	k := idx % per
	var n int
	switch {
	case k < a:
		n = 1
	case k < a+a*a:
		n, k = 2, k-a
	default:
		n, k = 3, k-a-a*a
	}
	prog := []*gripql.GraphStatement{start.mk()}
	name := start.name
	digits := make([]int, n)
	for i := n - 1; i >= 0; i-- {
		digits[i] = k % a
		k /= a
	}
	for _, d := range digits {
		prog = append(prog, enumAlphabet[d].mk())
		name += "." + enumAlphabet[d].name
	}
	return prog, name
}

// Typing verdicts of the documented type system.
const (
	WellTyped    = "well-typed"
	IllTyped     = "ill-typed" // the documentation implies an error
	Unspecified  = "unspecified" // documentation is silent: not judged
	OutsideModel = "outside-model" // well typed but outside the subset refql models exactly
)

// TypeCheck classifies a program by the documented typing rules.
func TypeCheck(p []*gripql.GraphStatement) string { return typeCheck(p, false) }

// TypeCheckExt is TypeCheck with the steps the reference also models but the
// bounded enumeration does not contain: the *Null moves (followed by count or
// by select of one earlier mark only; anything else after a null traveler is
// judged for crashes by C06, not for content) and unwind.
func TypeCheckExt(p []*gripql.GraphStatement) string { return typeCheck(p, true) }

func typeCheck(p []*gripql.GraphStatement, ext bool) string {
	null := false // a *Null move happened and no select has replaced the current element yet
	typ := ""
	marks := map[string]string{}
	weak := false  // a truncation or distinct(field) happened: only truncations/count may follow (model limit)
	noHist := false // distinct(_gid) happened: history must not be observed later (model limit)
	noPath := false
	verdict := WellTyped
	elem := func() bool { return typ == "vertex" || typ == "edge" }
	for i, s := range p {
		switch s.Statement.(type) {
		case *gripql.GraphStatement_V:
			if i != 0 {
				return IllTyped
			}
			typ = "vertex"
			continue
		case *gripql.GraphStatement_E:
			if i != 0 {
				return IllTyped
			}
			typ = "edge"
			continue
		}
		if i == 0 {
			return IllTyped
		}
		if weak {
			switch s.Statement.(type) {
			case *gripql.GraphStatement_Limit, *gripql.GraphStatement_Skip, *gripql.GraphStatement_Range:
				continue
			case *gripql.GraphStatement_Count:
				if i == len(p)-1 {
					typ = "count"
					continue
				}
			}
			verdict = OutsideModel
		}
		if null {
			switch x := s.Statement.(type) {
			case *gripql.GraphStatement_Count:
				if i == len(p)-1 {
					typ = "count"
					continue
				}
			case *gripql.GraphStatement_Select:
				if len(x.Select.Marks) == 1 {
					if t, ok := marks[x.Select.Marks[0]]; ok && !noHist {
						typ = t
						null = false
						continue
					}
				}
			}
			if verdict == WellTyped {
				verdict = OutsideModel
			}
			continue
		}
		// references to marks that were never defined: the documentation is silent
		for _, ref := range markRefs(s) {
			if _, ok := marks[ref]; !ok && verdict == WellTyped {
				verdict = Unspecified
			}
		}
		switch x := s.Statement.(type) {
		case *gripql.GraphStatement_Out, *gripql.GraphStatement_In, *gripql.GraphStatement_Both:
			if !elem() {
				return IllTyped
			}
			if typ == "edge" {
				var l []string
				switch y := x.(type) {
				case *gripql.GraphStatement_Out:
					l = listStrings(y.Out)
				case *gripql.GraphStatement_In:
					l = listStrings(y.In)
				case *gripql.GraphStatement_Both:
					l = listStrings(y.Both)
				}
				if len(l) > 0 {
					verdict = OutsideModel // label argument on an edge->vertex move: not documented
				}
			}
			typ = "vertex"
		case *gripql.GraphStatement_OutE, *gripql.GraphStatement_InE, *gripql.GraphStatement_BothE:
			if typ != "vertex" {
				return IllTyped
			}
			typ = "edge"
		case *gripql.GraphStatement_Has, *gripql.GraphStatement_HasLabel, *gripql.GraphStatement_HasId, *gripql.GraphStatement_HasKey:
			if !elem() {
				return IllTyped
			}
		case *gripql.GraphStatement_As:
			if !elem() {
				if verdict == WellTyped {
					verdict = Unspecified
				}
				continue
			}
			marks[x.As] = typ
		case *gripql.GraphStatement_Select:
			if !elem() {
				return IllTyped
			}
			for _, m := range x.Select.Marks {
				if _, ok := marks[m]; !ok {
					return IllTyped
				}
			}
			if noHist {
				verdict = OutsideModel
			}
			if len(x.Select.Marks) == 1 {
				typ = marks[x.Select.Marks[0]]
			} else {
				typ = "selection"
			}
		case *gripql.GraphStatement_Fields:
			if !elem() {
				return IllTyped
			}
			noPath = true
		case *gripql.GraphStatement_Render:
			if !elem() {
				return IllTyped
			}
			typ = "render"
		case *gripql.GraphStatement_Path:
			if !elem() {
				return IllTyped
			}
			if noPath || noHist {
				verdict = OutsideModel
			}
			typ = "path"
		case *gripql.GraphStatement_Distinct:
			if !elem() {
				return IllTyped
			}
			f := listStrings(x.Distinct)
			if len(f) == 0 || (len(f) == 1 && f[0] == "_gid") {
				noHist = true
			} else {
				weak = true
			}
		case *gripql.GraphStatement_Count:
			typ = "count"
		case *gripql.GraphStatement_Limit, *gripql.GraphStatement_Skip, *gripql.GraphStatement_Range:
			weak = true
		case *gripql.GraphStatement_OutNull, *gripql.GraphStatement_InNull, *gripql.GraphStatement_OutENull, *gripql.GraphStatement_InENull:
			if !ext || typ != "vertex" {
				if verdict == WellTyped {
					verdict = OutsideModel
				}
				continue
			}
			switch x.(type) {
			case *gripql.GraphStatement_OutENull, *gripql.GraphStatement_InENull:
				typ = "edge"
			}
			null = true
		case *gripql.GraphStatement_Unwind:
			if !ext || !elem() {
				if verdict == WellTyped {
					verdict = OutsideModel
				}
				continue
			}
			noPath = true
		default:
			if verdict == WellTyped {
				verdict = OutsideModel
			}
		}
	}
	return verdict
}

func listStrings(l interface{ AsSlice() []interface{} }) []string {
	var out []string
	defer func() { recover() }()
	for _, x := range l.AsSlice() {
		if s, ok := x.(string); ok {
			out = append(out, s)
		}
	}
	return out
}

// markRefs lists the mark names a statement refers to through "$name." paths.
func markRefs(s *gripql.GraphStatement) []string {
	var txt string
	switch x := s.Statement.(type) {
	case *gripql.GraphStatement_Has:
		txt = x.Has.String()
	case *gripql.GraphStatement_Render:
		txt = x.Render.String()
	case *gripql.GraphStatement_Distinct:
		txt = x.Distinct.String()
	case *gripql.GraphStatement_HasKey:
		txt = x.HasKey.String()
	case *gripql.GraphStatement_Fields:
		txt = x.Fields.String()
	case *gripql.GraphStatement_Unwind:
		txt = x.Unwind
	default:
		return nil
	}
	var out []string
	for i := 0; i < len(txt); i++ {
		if txt[i] == '$' {
			j := i + 1
			for j < len(txt) && (txt[j] == '_' || txt[j] >= '0' && txt[j] <= '9' || txt[j] >= 'a' && txt[j] <= 'z' || txt[j] >= 'A' && txt[j] <= 'Z') {
				j++
			}
			if j > i+1 {
				out = append(out, txt[i+1:j])
			}
			i = j
		}
	}
	return out
}
