package gen

import (
	"github.com/bmeg/grip/gripql"
	"verifsim/model"
)

func SetStmt(key string, v interface{}) *gripql.GraphStatement {
	pv := Render(v).GetRender()
	return &gripql.GraphStatement{Statement: &gripql.GraphStatement_Set{Set: &gripql.Set{Key: key, Value: pv}}}
}
func Increment(key string, n int32) *gripql.GraphStatement {
	return &gripql.GraphStatement{Statement: &gripql.GraphStatement_Increment{Increment: &gripql.Increment{Key: key, Value: n}}}
}
func Mark(name string) *gripql.GraphStatement {
	return &gripql.GraphStatement{Statement: &gripql.GraphStatement_Mark{Mark: name}}
}
func Jump(mark string, cond *gripql.HasExpression, emit bool) *gripql.GraphStatement {
	return &gripql.GraphStatement{Statement: &gripql.GraphStatement_Jump{Jump: &gripql.Jump{Mark: mark, Expression: cond, Emit: emit}}}
}

// loopBody draws order-preserving, traveler-local steps that end on a vertex.
func loopBody(r R, n int) []*gripql.GraphStatement {
	var b []*gripql.GraphStatement
	for i := 0; i < n; i++ {
		switch r.Intn(8) {
		case 0, 1, 2:
			b = append(b, Out(labelArgs(r, ELabels)...))
		case 3:
			b = append(b, In(labelArgs(r, ELabels)...))
		case 4:
			b = append(b, OutE(labelArgs(r, ELabels)...), In())
		case 5:
			b = append(b, Has(HasExpr(r, 0, "")))
		case 6:
			b = append(b, HasLabel(labelArgsNonEmpty(r, VLabels)...))
		default:
			b = append(b, As("x"))
		}
	}
	return b
}

// LoopProgram draws a mark/jump program of one of the documented shapes; the
// counter bounds the iteration depth so that the loop is finite.
func LoopProgram(r R, g *model.GraphData) (prog []*gripql.GraphStatement, family string) {
	var start *gripql.GraphStatement
	if r.Chance(60) {
		start = V(vids(g, r, 1+r.Intn(3))...)
	} else {
		start = V()
	}
	n := float64(1 + r.Intn(4))
	body := loopBody(r, 1+r.Intn(3))
	lt := gripql.Lt("$s.c", n)
	pre := []*gripql.GraphStatement{start, SetStmt("c", 0.0), As("s")}
	switch r.Intn(7) {
	case 0, 1: // the documented example: counter after the body
		family = "counter-after-body"
		prog = append(pre, Mark("a"))
		prog = append(prog, body...)
		prog = append(prog, Increment("$s.c", 1), Has(lt), Jump("a", nil, true))
	case 2: // counter before the body (second conformance query)
		family = "counter-before-body"
		prog = append(pre, Mark("a"), Increment("$s.c", 1), Has(lt))
		prog = append(prog, body...)
		prog = append(prog, Jump("a", nil, true))
	case 3: // conditional jump, everything emitted
		family = "conditional-jump"
		prog = append(pre, Mark("a"))
		prog = append(prog, body...)
		prog = append(prog, Increment("$s.c", 1), Jump("a", lt, true))
	case 4: // two jumps to one mark
		family = "two-jumps"
		prog = append(pre, Mark("a"), Increment("$s.c", 1), Has(lt))
		prog = append(prog, body...)
		prog = append(prog, Jump("a", gripql.Eq("_label", pick(r, VLabels)), true))
		prog = append(prog, loopBody(r, 1)...)
		prog = append(prog, Jump("a", nil, true))
	case 5: // forward jump (jump before its mark)
		family = "forward-jump"
		prog = []*gripql.GraphStatement{start, Jump("skip", gripql.Eq("_label", pick(r, VLabels)), r.Chance(80))}
		prog = append(prog, body...)
		prog = append(prog, Mark("skip"))
		if r.Chance(50) {
			prog = append(prog, Out())
		}
	default: // emit=false with no condition: nothing leaves the loop
		family = "no-emit"
		prog = append(pre, Mark("a"))
		prog = append(prog, body...)
		prog = append(prog, Increment("$s.c", 1), Has(lt), Jump("a", nil, false))
	}
	if family != "forward-jump" && r.Chance(30) {
		prog = append(prog, loopBody(r, 1)...)
	}
	return prog, family
}
