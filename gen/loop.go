package gen

import (
	"github.com/bmeg/grip/gripql"
	"verifsim/model"
)

func SetStmt(key string, v interface{}) *gripql.GraphStatement {
	pv := Render(v).GetRender()
	return &gripql.GraphStatement{Statement: &gripql.GraphStatement_Set{Set: &gripql.Set{Key: key, Value: pv}}}
}
func Increment(key string, n int32) *gripql.GraphStatement {
	return &gripql.GraphStatement{Statement: &gripql.GraphStatement_Increment{Increment: &gripql.Increment{Key: key, Value: n}}}
}
func Mark(name string) *gripql.GraphStatement {
	return &gripql.GraphStatement{Statement: &gripql.GraphStatement_Mark{Mark: name}}
}
func Jump(mark string, cond *gripql.HasExpression, emit bool) *gripql.GraphStatement {
	return &gripql.GraphStatement{Statement: &gripql.GraphStatement_Jump{Jump: &gripql.Jump{Mark: mark, Expression: cond, Emit: emit}}}
}

// loopBody draws order-preserving, traveler-local steps that end on a vertex.
func loopBody(r R, n int) []*gripql.GraphStatement {
	var b []*gripql.GraphStatement
	for i := 0; i < n; i++ {
		switch r.Intn(8) {
		case 0, 1, 2:
			b = append(b, Out(labelArgs(r, ELabels)...))
		case 3:
			b = append(b, In(labelArgs(r, ELabels)...))
		case 4:
			b = append(b, OutE(labelArgs(r, ELabels)...), In())
		case 5:
			b = append(b, Has(HasExpr(r, 0, "")))
		case 6:
			b = append(b, HasLabel(labelArgsNonEmpty(r, VLabels)...))
		default:
			b = append(b, As("x"))
		}
	}
	return b
}

// LoopProgram draws a mark/jump program of one of the documented shapes; the
// counter bounds the iteration depth so that the loop is finite.
func LoopProgram(r R, g *model.GraphData) (prog []*gripql.GraphStatement, family string) {
	var start *gripql.GraphStatement
	if r.Chance(60) {
		start = V(vids(g, r, 1+r.Intn(3))...)
	} else {
		start = V()
	}
	n := float64(1 + r.Intn(4))
	body := loopBody(r, 1+r.Intn(3))
	lt := gripql.Lt("$s.c", n)
	pre := []*gripql.GraphStatement{start, SetStmt("c", 0.0), As("s")}
	switch r.Intn(8) {
	case 7: // one mark entered by a forward jump and re-entered by a backward jump
		family = "forward-and-backward-jump"
		prog = append(pre, Jump("a", gripql.Eq("_label", pick(r, VLabels)), true))
		prog = append(prog, loopBody(r, 1)...)
		prog = append(prog, Mark("a"), Increment("$s.c", 1), Has(lt))
		prog = append(prog, body...)
		prog = append(prog, Jump("a", nil, true))
	case 0, 1: // the documented example: counter after the body
		family = "counter-after-body"
		prog = append(pre, Mark("a"))
		prog = append(prog, body...)
		prog = append(prog, Increment("$s.c", 1), Has(lt), Jump("a", nil, true))
	case 2: // counter before the body (second conformance query)
		family = "counter-before-body"
		prog = append(pre, Mark("a"), Increment("$s.c", 1), Has(lt))
		prog = append(prog, body...)
		prog = append(prog, Jump("a", nil, true))
	case 3: // conditional jump, everything emitted
		family = "conditional-jump"
		prog = append(pre, Mark("a"))
		prog = append(prog, body...)
		prog = append(prog, Increment("$s.c", 1), Jump("a", lt, true))
	case 4: // two jumps to one mark
		family = "two-jumps"
		prog = append(pre, Mark("a"), Increment("$s.c", 1), Has(lt))
		prog = append(prog, body...)
		prog = append(prog, Jump("a", gripql.Eq("_label", pick(r, VLabels)), true))
		prog = append(prog, loopBody(r, 1)...)
		prog = append(prog, Jump("a", nil, true))
	case 5: // forward jump (jump before its mark)
		family = "forward-jump"
		prog = []*gripql.GraphStatement{start, Jump("skip", gripql.Eq("_label", pick(r, VLabels)), r.Chance(80))}
		prog = append(prog, body...)
		prog = append(prog, Mark("skip"))
		if r.Chance(50) {
			prog = append(prog, Out())
		}
	default: // emit=false with no condition: nothing leaves the loop
		family = "no-emit"
		prog = append(pre, Mark("a"))
		prog = append(prog, body...)
		prog = append(prog, Increment("$s.c", 1), Has(lt), Jump("a", nil, false))
	}
	if family != "forward-jump" && r.Chance(30) {
		prog = append(prog, loopBody(r, 1)...)
	}
	return prog, family
}

// LoopVolume draws a graph and a counter-bounded loop in which every pass
// holds more travelers (1 100 - 2 600) than any fixed capacity of the cycle is
// likely to be: the property holds "regardless of the number of travelers in
// flight". The cycle is jump -> queue -> mark -> body -> jump; a bound anywhere
// in it deadlocks once a pass no longer fits. The graph is a star whose W
// leaves each start a chain, so that every pass re-enters W travelers.
func LoopVolume(r R) (*model.GraphData, []*gripql.GraphStatement, string) {
	W := []int{1100, 1500, 2600}[r.Intn(3)]
	depth := 2 + r.Intn(2)
	g := &model.GraphData{}
	g.V = append(g.V, &model.Vertex{ID: "v0", Label: "A"})
	k := 0
	for i := 0; i < W; i++ {
		prev := "v0"
		for l := 0; l <= depth; l++ {
			id := fmtID("c", l) + fmtID("_", i)
			g.V = append(g.V, &model.Vertex{ID: id, Label: "B"})
			g.E = append(g.E, &model.Edge{ID: fmtID("e", k), Label: "k", From: prev, To: id})
			k++
			prev = id
		}
	}
	lt := gripql.Lt("$s.c", float64(depth))
	emit := r.Chance(70)
	prog := []*gripql.GraphStatement{V("v0"), SetStmt("c", 0.0), As("s"), Mark("a"), Out(), Increment("$s.c", 1)}
	family := "volume-conditional-jump"
	if r.Chance(50) {
		family = "volume-counter-after-body"
		prog = append(prog, Has(lt), Jump("a", nil, emit))
	} else {
		prog = append(prog, Jump("a", lt, emit))
	}
	if !emit {
		family += "-no-emit"
	}
	return g, prog, family
}

func fmtID(p string, i int) string { return p + itoa(i) }

func itoa(i int) string {
	if i == 0 {
		return "0"
	}
	s := ""
	for i > 0 {
		s = string(rune('0'+i%10)) + s
		i /= 10
	}
	return s
}
