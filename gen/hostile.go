package gen

import (
	"math"
	"strings"

	"verifsim/model"
)

// Hostile identifier and value pools for C16: separator and control bytes,
// unicode, reserved words used internally, prefixes of one another, the empty
// string, very long strings; values with deep nesting, empty containers,
// numeric extremes.

var HostileIDs = []string{
	"a", "b", "a\x00b", "a\x00", "\x00", "", "a|b", "a.b", "a/b", "ü", "label", "v", "e", "data", "gid", " ", "a b", "\x01", "a\x01",
	strings.Repeat("x", 300), "\xff", "a\xffb", "%s", "'; DROP", "a\nb",
}
var HostileLabels = []string{"A", "B", "label", "A\x00B", "A.B", "", "\x01", "v", "e", "A B", "Ü", "gid", "data", "a\x00", strings.Repeat("L", 200)}
var HostileGraphs = []string{"g1", "g2", "g", "g\x00x", "", "v", "label", "grâph", "g1\x00", "G-1", "g__schema__", strings.Repeat("g", 200)}
var HostileKeys = []string{"x", "ключ", "label", "k\x00", "\x00", "gid", "data", "K", "x\x01y", "from", "to"}

func hostileValue(r R, depth int) interface{} {
	switch r.Intn(12) {
	case 0:
		return nil
	case 1:
		return true
	case 2:
		return math.MaxFloat64
	case 3:
		return -math.MaxFloat64
	case 4:
		return 9007199254740993.0 // > 2^53
	case 5:
		return math.SmallestNonzeroFloat64
	case 6:
		return "s\x00t"
	case 7:
		return ""
	case 8:
		return []interface{}{}
	case 9:
		return map[string]interface{}{}
	case 10:
		if depth > 0 {
			return map[string]interface{}{"n": hostileValue(r, depth-1), "l": []interface{}{hostileValue(r, depth-1), []interface{}{}}}
		}
		return 0.0
	}
	return float64(r.Intn(3)) - 0.5
}

func hostileData(r R) map[string]interface{} {
	if r.Chance(40) {
		return nil
	}
	d := map[string]interface{}{}
	for i := 0; i < 1+r.Intn(2); i++ {
		d[pick(r, HostileKeys)] = hostileValue(r, 3)
	}
	return d
}

// HostileHistory draws a history whose identifiers come from the hostile pools.
func HostileHistory(r R, maxLen int, reopen bool, avoidReadd bool) []HOp {
	n := 2 + r.Intn(maxLen)
	// a few names are reused so that collisions between identifiers can happen
	gs := []string{"g1", pick(r, HostileGraphs)}
	ids := []string{pick(r, HostileIDs), pick(r, HostileIDs), pick(r, HostileIDs), "a"}
	ls := []string{pick(r, HostileLabels), pick(r, HostileLabels), "A"}
	h := []HOp{{Op: "addGraph", G: gs[0], TickUs: 100}}
	type ek struct{ g, id string }
	seen := map[ek]*model.Edge{}
	for len(h) < n {
		op := HOp{G: pick(r, gs), TickUs: 1 + r.Intn(1000)}
		switch k := r.Intn(100); {
		case k < 12:
			op.Op = "addGraph"
		case k < 16:
			op.Op = "delGraph"
		case k < 50:
			op.Op = "addV"
			op.V = []*model.Vertex{{ID: pick(r, ids), Label: pick(r, ls), Data: hostileData(r)}}
		case k < 78:
			op.Op = "addE"
			op.E = []*model.Edge{{ID: pick(r, ids) + pick(r, []string{"", "e"}), Label: pick(r, ls), From: pick(r, ids), To: pick(r, ids), Data: hostileData(r)}}
		case k < 84:
			op.Op = "delV"
			op.ID = pick(r, ids)
		case k < 90:
			op.Op = "delE"
			op.ID = pick(r, ids) + pick(r, []string{"", "e"})
		default:
			if !reopen {
				continue
			}
			op.Op = "reopen"
			op.G = ""
		}
		if (op.Op == "addV" || op.Op == "addE") && r.Chance(20) {
			// the same element(s) through the streaming bulk call of the driver
			op.Op = "bulk"
			if r.Chance(40) {
				op.V = append(op.V, &model.Vertex{ID: pick(r, ids), Label: pick(r, ls), Data: hostileData(r)})
			}
		}
		for _, e := range op.E {
			if old, ok := seen[ek{op.G, e.ID}]; ok && avoidReadd {
				e.From, e.To, e.Label = old.From, old.To, old.Label
			}
			c := *e
			seen[ek{op.G, e.ID}] = &c
		}
		h = append(h, op)
	}
	return h
}
