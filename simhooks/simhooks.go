// Package simhooks holds the seam substitutes that need bmeg/grip types.
package simhooks

import (
	"sync"
	"sync/atomic"

	"github.com/bmeg/grip/kvi"
	"github.com/bmeg/grip/kvi/badgerdb"
	"verifsim/simkv"
	"verifsim/simrt"
)

// TempKVOpened / TempKVClosed count temporary stores handed to the engine's
// manager and closed by it again (C07 resource-release oracle).
var TempKVOpened, TempKVClosed atomic.Int64

var mu sync.Mutex

type tempKV struct {
	*simkv.Store
	closed atomic.Bool
}

func (t *tempKV) Close() error {
	if t.closed.CompareAndSwap(false, true) {
		TempKVClosed.Add(1)
	}
	return t.Store.Close()
}

// NewTempKV replaces badgerdb.NewKVInterface inside package engine: under a
// simulation the temporary store of distinct()/aggregations is a simkv.
func NewTempKV(path string, opts kvi.Options) (kvi.KVInterface, error) {
	if simrt.Current() == nil {
		return badgerdb.NewKVInterface(path, opts)
	}
	TempKVOpened.Add(1)
	return &tempKV{Store: simkv.NewDisk().Open()}, nil
}
