//go:build race

package simrt

import "runtime"

func raceDisable() { runtime.RaceDisable() }
func raceEnable()  { runtime.RaceEnable() }
