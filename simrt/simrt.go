// Package simrt is the deterministic scheduler the instrumented bmeg/grip code
// runs under: real goroutines, real channels, but exactly one goroutine is
// released at a time at every synchronisation point, chosen by a seeded PRNG.
// It must run inside a testing/synctest bubble (quiescence detection + fake
// clock). With no simulation active every hook is a no-op.
//
// Race-detector notes: the scheduler hides its own synchronisation from the
// detector (raceDisable/raceEnable, //go:norace) so that -race sees only the
// happens-before edges of the code under test. The registry is an intrusive
// linked list: runtime map/append helpers report races even from norace code.
package simrt

import (
	"bytes"
	"fmt"
	"runtime"
	"strconv"
	"sync"
	"sync/atomic"
	"testing/synctest"
	"time"
)

// Policy selects how the next goroutine is chosen.
type Policy int

const (
	PolRandom Policy = iota // uniform over parked goroutines
	PolPCT                  // random priorities with occasional demotion
	PolStarve               // one victim goroutine runs only when nothing else can
	PolBurst                // keep running the same goroutine while it can
	PolRR                   // fair round robin (least recently run first)
	NumPolicies
)

func (p Policy) String() string {
	switch p {
	case PolRandom:
		return "random"
	case PolPCT:
		return "pct"
	case PolStarve:
		return "starve-one"
	case PolBurst:
		return "burst"
	case PolRR:
		return "round-robin"
	}
	return "?"
}

// Verdict of one scheduler run.
type Verdict string

const (
	Done     Verdict = "done"     // done() became true
	Deadlock Verdict = "deadlock" // nothing parked, advancing the clock changes nothing
	Livelock Verdict = "livelock" // fair policy, no channel progress for K full rounds
	Budget   Verdict = "budget"   // step budget exhausted (inconclusive)
	Crashed  Verdict = "crashed"  // an injected crash stopped the simulated process
)

// Config is everything a schedule depends on; a run is a pure function of it
// and of the code.
type Config struct {
	Seed       uint64 // schedule PRNG seed
	Policy     Policy
	CapDiv     int    // channel capacities are divided by this (min 1)
	TimeEvery  int    // let simulated time pass at least every N steps (default 16)
	MaxSteps   int    // step budget (default 2e6)
	KeepTrace  bool   // record every decision
	StarveSite string // PolStarve: victim = goroutines whose spawn site contains this; "" = by index
	StarveIdx  int    // PolStarve with StarveSite=="": victim = StarveIdx-th spawned goroutine
	LiveRounds int    // PolRR: rounds without progress that count as livelock (default 1000)
	SlowSite   string // goroutines whose spawn site contains this are slow: ...
	SlowPct    int    // ... with this probability (percent) a released step first sleeps a seeded time
	CrashIO    int    // the simulated process dies in front of its CrashIO-th file operation (0 = never)
	FailFileWrite  int  // the k-th file write (simrt.FileWrite) fails (0 = never)
	FailFileSticky bool // ... and every later one too (full disk)
	CrashSite  string // count the steps taken at yield sites whose name contains this ...
	CrashNth   int    // ... and let the simulated process die in front of the CrashNth-th of them (0 = only count)
}

type gstate struct {
	id       string
	spawn    string // site of the go statement
	site     string // site it is parked at
	ch       chan struct{}
	parked   bool
	alive    bool
	goid     uint64
	kids     int
	idx      int    // spawn index
	prio     uint64 // PCT
	lastRun  int    // RR
	next     *gstate
	released int
	delay    time.Duration
	resumed  bool
}

// Sim is one simulated process.
type Sim struct {
	mu      sync.Mutex
	head    *gstate
	nall    int
	nalive  int
	cfg     Config
	rng     uint64
	mrng    uint64 // map-order stream
	root    uint64
	killing bool
	crashed atomic.Bool
	passive atomic.Int32

	Steps     int
	TimeAdv   int
	Trace     []string
	hash      uint64
	progress  atomic.Uint64
	Panics    []string
	Unreg     []string // yields from goroutines the simulator did not start
	probes    *probe
	lastG     *gstate
	MaxParked int
	SumParked int
	stateHash map[uint64]struct{}
	seq       atomic.Uint64 // global event sequence for histories
	uuid      atomic.Uint64
	tmpn      atomic.Uint64
	ioN       atomic.Int64 // file operations reached so far
	fwN       atomic.Int64 // file writes so far
	pend      *pendW
	siteSteps int
	crashSite atomic.Value // site of the file operation the injected crash preceded
}

type probe struct {
	name string
	n    int
	next *probe
}

var cur atomic.Pointer[Sim]

// Active reports whether a simulation is running and not in passive mode on
// this process.
func Active() bool {
	s := cur.Load()
	return s != nil && s.passive.Load() == 0
}

// Current returns the running simulation or nil.
func Current() *Sim { return cur.Load() }

//go:norace
func goid() uint64 {
	var buf [64]byte
	n := runtime.Stack(buf[:], false)
	b := buf[:n]
	b = b[len("goroutine "):]
	i := bytes.IndexByte(b, ' ')
	v, _ := strconv.ParseUint(string(b[:i]), 10, 64)
	return v
}

// New installs a simulation. Call from the bubble's root goroutine.
func New(cfg Config) *Sim {
	if cfg.CapDiv < 1 {
		cfg.CapDiv = 1
	}
	if cfg.TimeEvery < 1 {
		cfg.TimeEvery = 16
	}
	if cfg.MaxSteps < 1 {
		cfg.MaxSteps = 2000000
	}
	if cfg.LiveRounds < 1 {
		cfg.LiveRounds = 1000
	}
	s := &Sim{cfg: cfg, rng: cfg.Seed*2654435761 + 0x1234567, mrng: cfg.Seed ^ 0xabcdef9876, root: goid(), hash: 1469598103934665603}
	cur.Store(s)
	return s
}

// Close uninstalls the simulation.
func (s *Sim) Close() { cur.CompareAndSwap(s, nil) }

// Config returns the configuration of the run.
func (s *Sim) Config() Config { return s.cfg }

//go:norace
func mix(x *uint64) uint64 {
	*x += 0x9e3779b97f4a7c15
	z := *x
	z = (z ^ (z >> 30)) * 0xbf58476d1ce4e5b9
	z = (z ^ (z >> 27)) * 0x94d049bb133111eb
	return z ^ (z >> 31)
}

//go:norace
func (s *Sim) next() uint64 { return mix(&s.rng) }

// Passive runs f with the simulator switched off (plain goroutines, no
// yields): used for set-up and for observation between simulated operations.
func (s *Sim) Passive(f func()) {
	s.passive.Add(1)
	defer s.passive.Add(-1)
	f()
}

// Cap scales a constant channel capacity.
//
//go:norace
func Cap(site string, n int) int {
	s := cur.Load()
	if s == nil || s.cfg.CapDiv <= 1 || n <= 0 {
		return n
	}
	m := n / s.cfg.CapDiv
	if m < 1 {
		m = 1
	}
	return m
}

//go:norace
func (s *Sim) find(id uint64) *gstate {
	for g := s.head; g != nil; g = g.next {
		if g.alive && g.goid == id {
			return g
		}
	}
	return nil
}

// Yield parks the calling goroutine until the scheduler releases it.
//
//go:norace
func Yield(site string) {
	s := cur.Load()
	if s == nil || s.passive.Load() != 0 {
		return
	}
	raceDisable()
	id := goid()
	if id == s.root {
		raceEnable()
		return
	}
	s.mu.Lock()
	g := s.find(id)
	if g == nil {
		if len(s.Unreg) < 20 {
			s.Unreg = append(s.Unreg, site)
		}
		s.mu.Unlock()
		raceEnable()
		return
	}
	g.site = site
	g.parked = true
	s.mu.Unlock()
	<-g.ch
	if d := g.delay; d > 0 && !s.killing {
		// slow worker: sleep on the simulated clock, then park again so that the
		// operation itself still happens under the scheduler's control
		g.delay = 0
		time.Sleep(d)
		s.mu.Lock()
		g.resumed = true
		g.parked = true
		s.mu.Unlock()
		<-g.ch
	}
	k := s.killing
	raceEnable()
	if k {
		runtime.Goexit()
	}
}

// Progress records that a channel transfer completed (livelock detection).
func Progress() {
	s := cur.Load()
	if s == nil {
		return
	}
	s.progress.Add(1)
}

// ProgressCount returns the number of completed transfers so far.
func (s *Sim) ProgressCount() uint64 { return s.progress.Load() }

// Seq returns the next global event sequence number (for histories).
func (s *Sim) Seq() uint64 { return s.seq.Add(1) }

// Probe counts that a rare condition was reached.
//
//go:norace
func Probe(name string) {
	s := cur.Load()
	if s == nil {
		return
	}
	raceDisable()
	s.mu.Lock()
	var p *probe
	for p = s.probes; p != nil; p = p.next {
		if p.name == name {
			break
		}
	}
	if p == nil {
		p = &probe{name: name, next: s.probes}
		s.probes = p
	}
	p.n++
	s.mu.Unlock()
	raceEnable()
}

// Probes returns probe hit counts.
func (s *Sim) Probes() map[string]int {
	s.mu.Lock()
	defer s.mu.Unlock()
	m := map[string]int{}
	for p := s.probes; p != nil; p = p.next {
		m[p.name] = p.n
	}
	return m
}

type locker interface {
	TryLock() bool
	Lock()
}
type rlocker interface {
	TryRLock() bool
	RLock()
}

// Lock replaces sync.Mutex.Lock / RWMutex.Lock: never parks inside the runtime.
func Lock(site string, m locker) {
	if !Active() {
		m.Lock()
		return
	}
	Yield(site)
	// sync.RWMutex prefers writers: once a writer waits, new readers wait too
	// (a goroutine that read-locks recursively deadlocks with it). The
	// try-lock loop below would hide that, so waiting writers are announced.
	rw, isRW := m.(*sync.RWMutex)
	if isRW {
		pendingWriter(rw, +1)
	}
	for !m.TryLock() {
		Yield(site + ":blocked")
	}
	if isRW {
		pendingWriter(rw, -1)
	}
}

// RLock replaces RWMutex.RLock.
func RLock(site string, m rlocker) {
	if !Active() {
		m.RLock()
		return
	}
	Yield(site)
	rw, _ := m.(*sync.RWMutex)
	for (rw != nil && pendingWriter(rw, 0) > 0) || !m.TryRLock() {
		Yield(site + ":blocked")
	}
}

type pendW struct {
	m    *sync.RWMutex
	n    int
	next *pendW
}

// pendingWriter adjusts and returns the number of simulated goroutines
// waiting to write-lock m.
//
//go:norace
func pendingWriter(m *sync.RWMutex, d int) int {
	s := cur.Load()
	if s == nil {
		return 0
	}
	raceDisable()
	defer raceEnable()
	s.mu.Lock()
	defer s.mu.Unlock()
	for p := s.pend; p != nil; p = p.next {
		if p.m == m {
			p.n += d
			return p.n
		}
	}
	if d != 0 {
		s.pend = &pendW{m: m, n: d, next: s.pend}
		return d
	}
	return 0
}

//go:norace
func (s *Sim) spawn(site string) *gstate {
	raceDisable()
	defer raceEnable()
	pid := goid()
	s.mu.Lock()
	p := s.find(pid)
	var cid string
	if p == nil {
		cid = "r" + strconv.Itoa(s.nall)
	} else {
		cid = p.id + "." + strconv.Itoa(p.kids)
		p.kids++
	}
	g := &gstate{id: cid, spawn: site, ch: make(chan struct{}, 1), idx: s.nall}
	g.prio = mix(&s.rng)
	g.next = s.head
	s.head = g
	s.nall++
	s.mu.Unlock()
	return g
}

//go:norace
func (s *Sim) attach(g *gstate) {
	raceDisable()
	me := goid()
	s.mu.Lock()
	g.goid = me
	g.alive = true
	s.nalive++
	s.mu.Unlock()
	raceEnable()
}

// CrashPanic is the panic value used to stop a goroutine at an injected crash.
type CrashPanic struct{ What string }

//go:norace
func (s *Sim) detach(g *gstate, r interface{}, stack []byte) {
	raceDisable()
	s.mu.Lock()
	g.alive = false
	g.parked = false
	s.nalive--
	// unlink
	if s.head == g {
		s.head = g.next
	} else {
		for p := s.head; p != nil; p = p.next {
			if p.next == g {
				p.next = g.next
				break
			}
		}
	}
	if r != nil {
		if _, ok := r.(CrashPanic); !ok {
			msg := fmt.Sprintf("goroutine %s (spawned at %s): panic: %v\n%s", g.id, g.spawn, r, trimStack(stack))
			s.Panics = append(s.Panics, msg)
		}
	}
	s.mu.Unlock()
	raceEnable()
}

func trimStack(b []byte) string {
	if len(b) > 3000 {
		b = b[:3000]
	}
	return string(b)
}

// Go replaces every `go` statement of instrumented code.
func Go(site string, f func()) {
	s := cur.Load()
	if s == nil || s.passive.Load() != 0 {
		go f()
		return
	}
	g := s.spawn(site)
	go func() {
		s.attach(g)
		defer func() {
			r := recover()
			var st []byte
			if r != nil {
				st = make([]byte, 8192)
				st = st[:runtime.Stack(st, false)]
			}
			s.detach(g, r, st)
		}()
		Yield(site)
		f()
	}()
}

// Wrap prepares a function that a library will start on a goroutine of its own
// (errgroup.Group.Go): the child's identity is assigned here, in the parent.
func Wrap(site string, f func() error) func() error {
	s := cur.Load()
	if s == nil || s.passive.Load() != 0 {
		return f
	}
	g := s.spawn(site)
	return func() (err error) {
		s.attach(g)
		defer func() {
			r := recover()
			var st []byte
			if r != nil {
				st = make([]byte, 8192)
				st = st[:runtime.Stack(st, false)]
			}
			s.detach(g, r, st)
		}()
		Yield(site)
		return f()
	}
}

// Crash marks the simulated process dead; the scheduler stops at its next step
// and the calling goroutine unwinds.
func (s *Sim) Crash(what string) {
	s.crashed.Store(true)
	panic(CrashPanic{what})
}

// IsCrashed reports whether an injected crash happened.
func (s *Sim) IsCrashed() bool { return s.crashed.Load() }

//go:norace
func (s *Sim) parkedSorted() []*gstate {
	var ps []*gstate
	for g := s.head; g != nil; g = g.next {
		if g.parked {
			ps = append(ps, g)
		}
	}
	for i := 1; i < len(ps); i++ {
		for j := i; j > 0 && ps[j].id < ps[j-1].id; j-- {
			ps[j], ps[j-1] = ps[j-1], ps[j]
		}
	}
	return ps
}

//go:norace
func (s *Sim) isVictim(g *gstate) bool {
	if s.cfg.StarveSite != "" {
		return bytes.Contains([]byte(g.spawn), []byte(s.cfg.StarveSite))
	}
	return g.idx == s.cfg.StarveIdx
}

//go:norace
func (s *Sim) choose(ps []*gstate) *gstate {
	switch s.cfg.Policy {
	case PolPCT:
		best := ps[0]
		for _, g := range ps[1:] {
			if g.prio > best.prio {
				best = g
			}
		}
		if s.next()%32 == 0 { // change point: demote
			best.prio = s.next() >> 20
		}
		return best
	case PolStarve:
		// the victim runs when nothing else can, and otherwise only once in a
		// while (1/48): slow, not dead - spinning pollers are always runnable, a
		// victim that never ran would turn every polling protocol into a
		// simulator-made livelock
		var cand, vict []*gstate
		for _, g := range ps {
			if !s.isVictim(g) {
				cand = append(cand, g)
			} else {
				vict = append(vict, g)
			}
		}
		if len(cand) == 0 || (len(vict) > 0 && s.next()%48 == 0) {
			return vict[int(s.next()%uint64(len(vict)))]
		}
		return cand[int(s.next()%uint64(len(cand)))]
	case PolBurst:
		if s.lastG != nil && s.lastG.parked && s.lastG.alive && s.next()%10 != 0 {
			return s.lastG
		}
		return ps[int(s.next()%uint64(len(ps)))]
	case PolRR:
		best := ps[0]
		for _, g := range ps[1:] {
			if g.lastRun < best.lastRun {
				best = g
			}
		}
		return best
	}
	return ps[int(s.next()%uint64(len(ps)))]
}

//go:norace
func (s *Sim) fold(str string) {
	h := s.hash
	for i := 0; i < len(str); i++ {
		h ^= uint64(str[i])
		h *= 1099511628211
	}
	h ^= 0xff
	h *= 1099511628211
	s.hash = h
}

// TraceHash is a hash of every decision taken so far.
func (s *Sim) TraceHash() uint64 { return s.hash }

// DistinctStates is the number of distinct (parked set, sites) fingerprints seen.
func (s *Sim) DistinctStates() int { return len(s.stateHash) }

var slowDur = [...]time.Duration{time.Microsecond, 10 * time.Microsecond, time.Millisecond, 7 * time.Millisecond, 50 * time.Millisecond}

var advDur = [...]time.Duration{time.Microsecond, 2 * time.Microsecond, time.Millisecond, time.Second}

// Run is the scheduler loop; call it from the bubble's root goroutine after
// starting the workload with Go. done is evaluated at quiescent points only.
//
//go:norace
func (s *Sim) Run(done func() bool) Verdict {
	raceDisable()
	defer raceEnable()
	idle := 0
	lockSpin := 0
	lastProg := s.progress.Load()
	roundsNoProg := 0
	roundMark := 0
	if s.stateHash == nil {
		s.stateHash = map[uint64]struct{}{}
	}
	for {
		synctest.Wait()
		if s.crashed.Load() {
			return Crashed
		}
		if done != nil && done() {
			return Done
		}
		s.mu.Lock()
		ps := s.parkedSorted()
		if len(ps) == 0 {
			alive := s.nalive
			s.mu.Unlock()
			if alive == 0 {
				if done == nil {
					return Done
				}
				return Deadlock // workload cannot finish: nobody left to run
			}
			idle++
			if idle > 4 {
				return Deadlock
			}
			s.TimeAdv++
			s.fold("adv")
			// past every timer in scope (cache expiry, batch timeouts, 100ms waits)
			time.Sleep(time.Duration(idle) * time.Hour)
			continue
		}
		idle = 0
		// Everybody who can run is spinning on a lock (sites ending in
		// ":blocked") and everybody else is durably blocked: nobody can release
		// those locks unless a timer fires. Let hours of simulated time pass a
		// few times; if the picture does not change it is a deadlock, under any
		// policy (the step budget would otherwise be burnt by the spinning).
		allSpin := true
		for _, p := range ps {
			if !bytes.HasSuffix([]byte(p.site), []byte(":blocked")) {
				allSpin = false
				break
			}
		}
		if allSpin {
			lockSpin++
			if lockSpin%256 == 0 {
				s.mu.Unlock()
				if lockSpin/256 > 4 {
					return Deadlock
				}
				s.TimeAdv++
				s.fold("adv-lockspin")
				time.Sleep(time.Duration(lockSpin/256) * time.Hour)
				continue
			}
		} else {
			lockSpin = 0
		}
		g := s.choose(ps)
		if allSpin {
			// among spinners the least recently run goes next, whatever the
			// policy: an unfair policy would let one spinner starve the goroutine
			// that could take the lock, which is the simulator's doing, not a
			// deadlock of the code
			g = ps[0]
			for _, p := range ps[1:] {
				if p.lastRun < g.lastRun {
					g = p
				}
			}
		}
		g.parked = false
		g.lastRun = s.Steps + 1
		g.released++
		if g.resumed {
			g.resumed = false
		} else if s.cfg.SlowPct > 0 && bytes.Contains([]byte(g.spawn), []byte(s.cfg.SlowSite)) && int(s.next()%100) < s.cfg.SlowPct {
			g.delay = slowDur[int(s.next()%uint64(len(slowDur)))]
		}
		s.lastG = g
		if len(ps) > s.MaxParked {
			s.MaxParked = len(ps)
		}
		s.SumParked += len(ps)
		s.fold(g.id)
		s.fold(g.site)
		if s.Steps%8 == 0 && len(s.stateHash) < 100000 {
			var h uint64 = 1469598103934665603
			for _, p := range ps {
				for i := 0; i < len(p.site); i++ {
					h ^= uint64(p.site[i])
					h *= 1099511628211
				}
				h ^= 0xfe
				h *= 1099511628211
			}
			s.stateHash[h] = struct{}{}
		}
		if s.cfg.KeepTrace {
			s.Trace = append(s.Trace, g.id+"@"+g.site)
		}
		s.mu.Unlock()
		s.Steps++
		if s.Steps%s.cfg.TimeEvery == 0 {
			// time must keep passing while pollers spin (DESIGN 2.2)
			d := advDur[int(s.next()%3)]
			s.TimeAdv++
			time.Sleep(d)
		}
		if s.cfg.Policy == PolRR {
			// one "round" = as many steps as there are parked goroutines
			if s.Steps-roundMark >= len(ps) {
				roundMark = s.Steps
				p := s.progress.Load()
				if p == lastProg {
					roundsNoProg++
					if roundsNoProg%8 == 0 {
						// past every polling sleep in scope, and - growing - past any
						// finite stall of a sleeping goroutine (a peer that answers
						// after a minute is slow, not a livelock): 200 ms, 400 ms, ...
						// up to days of simulated time before the verdict
						sh := roundsNoProg / 8
						if sh > 20 {
							sh = 20
						}
						time.Sleep((200 * time.Millisecond) << uint(sh))
					}
					if roundsNoProg >= s.cfg.LiveRounds {
						return Livelock
					}
				} else {
					lastProg = p
					roundsNoProg = 0
				}
			}
		}
		if s.Steps > s.cfg.MaxSteps {
			return Budget
		}
		if s.cfg.CrashSite != "" && bytes.Contains([]byte(g.site), []byte(s.cfg.CrashSite)) {
			// process death in front of the CrashNth-th step taken at a site of
			// the named component: the chosen goroutine is not released, the
			// simulated process stops here
			s.siteSteps++
			if s.cfg.CrashNth > 0 && s.siteSteps == s.cfg.CrashNth {
				s.crashed.Store(true)
				s.crashSite.Store(g.site)
				s.mu.Lock()
				g.parked = true
				s.mu.Unlock()
				return Crashed
			}
		}
		g.ch <- struct{}{}
	}
}

// SiteSteps is the number of steps taken at sites matching Config.CrashSite.
func (s *Sim) SiteSteps() int { return s.siteSteps }

// Kill tears the simulated process down: parked goroutines leave through
// runtime.Goexit (their deferred closes run); returns the number of goroutines
// still alive afterwards (blocked in real channel operations; abandoned).
//
//go:norace
func (s *Sim) Kill() int {
	raceDisable()
	defer raceEnable()
	s.killing = true
	for i := 0; i < 1000000; i++ {
		synctest.Wait()
		s.mu.Lock()
		ps := s.parkedSorted()
		if len(ps) == 0 {
			n := s.nalive
			s.mu.Unlock()
			return n
		}
		g := ps[0]
		g.parked = false
		s.mu.Unlock()
		g.ch <- struct{}{}
	}
	return -1
}

// Live is the number of simulated goroutines that have not exited.
//
//go:norace
func (s *Sim) Live() int {
	raceDisable()
	defer raceEnable()
	s.mu.Lock()
	defer s.mu.Unlock()
	return s.nalive
}

// LiveSites describes the goroutines that have not exited (diagnostics,
// signatures): "spawn-site@parked-site" sorted.
//
//go:norace
func (s *Sim) LiveSites() []string {
	raceDisable()
	defer raceEnable()
	s.mu.Lock()
	defer s.mu.Unlock()
	var out []string
	for g := s.head; g != nil; g = g.next {
		if g.alive {
			st := "blocked"
			if g.parked {
				st = "parked"
			}
			out = append(out, g.spawn+"@"+g.site+"("+st+")")
		}
	}
	for i := 1; i < len(out); i++ {
		for j := i; j > 0 && out[j] < out[j-1]; j-- {
			out[j], out[j-1] = out[j-1], out[j]
		}
	}
	return out
}

// Spawned is the number of goroutines started so far.
func (s *Sim) Spawned() int { return s.nall }
