//go:build !race

package simrt

func raceDisable() {}
func raceEnable()  {}
