package simrt

import (
	"errors"
	"fmt"
	"os"
	"path/filepath"
	"sort"
	"sync"
)

// Keys returns the keys of m in a deterministic order: sorted by their printed
// form, then (under a simulation) permuted by the run's map-order PRNG stream,
// so that code which silently depends on Go's map iteration order is explored
// under several orders, repeatably.
func Keys[M ~map[K]V, K comparable, V any](m M) []K {
	ks := make([]K, 0, len(m))
	for k := range m {
		ks = append(ks, k)
	}
	s := cur.Load()
	if s == nil {
		return ks
	}
	sort.Slice(ks, func(i, j int) bool {
		return fmt.Sprintf("%T%v", ks[i], ks[i]) < fmt.Sprintf("%T%v", ks[j], ks[j])
	})
	if len(ks) > 1 {
		s.mu.Lock()
		for i := len(ks) - 1; i > 0; i-- {
			j := int(mix(&s.mrng) % uint64(i+1))
			ks[i], ks[j] = ks[j], ks[i]
		}
		s.mu.Unlock()
	}
	return ks
}

// KeysI is Keys for map[interface{}]V (interface keys do not satisfy
// `comparable` under the repository's go 1.18 language version).
func KeysI[V any](m map[interface{}]V) []interface{} {
	ks := make([]interface{}, 0, len(m))
	for k := range m {
		ks = append(ks, k)
	}
	s := cur.Load()
	if s == nil {
		return ks
	}
	sort.Slice(ks, func(i, j int) bool {
		return fmt.Sprintf("%T%v", ks[i], ks[i]) < fmt.Sprintf("%T%v", ks[j], ks[j])
	})
	if len(ks) > 1 {
		s.mu.Lock()
		for i := len(ks) - 1; i > 0; i-- {
			j := int(mix(&s.mrng) % uint64(i+1))
			ks[i], ks[j] = ks[j], ks[i]
		}
		s.mu.Unlock()
	}
	return ks
}

// RangeSyncMap replaces sync.Map.Range with a deterministic order.
func RangeSyncMap(m *sync.Map, f func(k, v interface{}) bool) {
	if cur.Load() == nil {
		m.Range(f)
		return
	}
	type kv struct {
		k, v interface{}
		s    string
	}
	var all []kv
	m.Range(func(k, v interface{}) bool {
		all = append(all, kv{k, v, fmt.Sprintf("%T%v", k, k)})
		return true
	})
	sort.Slice(all, func(i, j int) bool { return all[i].s < all[j].s })
	for _, e := range all {
		if !f(e.k, e.v) {
			return
		}
	}
}

// UUID is the seam for util.UUID: a per-run counter under simulation.
func UUID() (string, bool) {
	s := cur.Load()
	if s == nil {
		return "", false
	}
	return fmt.Sprintf("simuuid-%06d", s.uuid.Add(1)), true
}

// TempDir is the seam for ioutil.TempDir: sequential names under simulation.
func TempDir(dir, pattern string) (string, error) {
	s := cur.Load()
	if s == nil {
		return os.MkdirTemp(dir, pattern)
	}
	if dir == "" {
		dir = os.TempDir()
	}
	if s.passive.Load() == 0 {
		// making a directory is a system call: a scheduling point like every
		// other call into storage (a check-then-create on shared state can be
		// interleaved here, as it can in the real process)
		Yield("simrt:mkdirtemp")
	}
	for {
		p := filepath.Join(dir, fmt.Sprintf("%s%06d", pattern, s.tmpn.Add(1)))
		if err := os.Mkdir(p, 0700); err == nil {
			return p, nil
		} else if !os.IsExist(err) {
			return "", err
		}
	}
}

// IOPoint is a yield (and crash point) in front of a file operation: with
// Config.CrashIO = k the simulated process dies in front of its k-th file
// operation (everything written before stays on disk, nothing after happens).
func IOPoint(site string) {
	s := cur.Load()
	if s == nil || s.passive.Load() != 0 {
		return
	}
	Yield(site)
	if s.crashed.Load() {
		return
	}
	n := s.ioN.Add(1)
	if s.cfg.CrashIO > 0 && int(n) == s.cfg.CrashIO {
		s.crashSite.Store(site)
		Probe("process died in front of a file operation")
		s.Crash("io:" + site)
	}
}

// IOCount is the number of file operations the simulated process reached.
func (s *Sim) IOCount() int { return int(s.ioN.Load()) }

// CrashSite is the site of the file operation an injected crash preceded.
func (s *Sim) CrashSite() string {
	if v, ok := s.crashSite.Load().(string); ok {
		return v
	}
	return ""
}

// ErrNoSpace is the injected file write error.
var ErrNoSpace = errors.New("simrt: injected write error: no space left on device")

// FileWrite replaces (*os.File).Write in instrumented packages: a yield and
// crash point, and with Config.FailFileWrite = k the k-th file write of the
// run fails without writing anything (all later ones too with FailFileSticky:
// a full disk).
func FileWrite(site string, f *os.File, b []byte) (int, error) {
	s := cur.Load()
	if s == nil || s.passive.Load() != 0 {
		return f.Write(b)
	}
	IOPoint(site)
	n := int(s.fwN.Add(1))
	if k := s.cfg.FailFileWrite; k > 0 && (n == k || (s.cfg.FailFileSticky && n > k)) {
		Probe("file write failed (injected)")
		return 0, ErrNoSpace
	}
	return f.Write(b)
}

// FileWrites is the number of file writes of instrumented packages so far.
func (s *Sim) FileWrites() int { return int(s.fwN.Load()) }

// Pool replaces sync.Pool in instrumented code (the instrumenter rewrites the
// type): which Get meets which earlier Put is decided by per-P caches and the
// garbage collector in the real one, i.e. by nothing a replay could repeat.
// This one is a stack: a Get always returns the value put back last, which is
// also the most hostile legal behaviour for code that keeps using a value
// after putting it back.
type Pool struct {
	New func() interface{}
	mu  sync.Mutex
	st  []interface{}
}

// Get pops the value put back last, or makes one.
func (p *Pool) Get() interface{} {
	p.mu.Lock()
	if n := len(p.st); n > 0 {
		v := p.st[n-1]
		p.st = p.st[:n-1]
		p.mu.Unlock()
		Probe("pool handed out a recycled value")
		return v
	}
	p.mu.Unlock()
	if p.New != nil {
		return p.New()
	}
	return nil
}

// Put pushes a value.
func (p *Pool) Put(v interface{}) {
	p.mu.Lock()
	p.st = append(p.st, v)
	p.mu.Unlock()
}
