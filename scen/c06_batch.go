//go:build verif

package scen

import (
	"fmt"

	"github.com/bmeg/grip/gripql"
	"google.golang.org/protobuf/encoding/protojson"
	"verifsim/gen"
	"verifsim/model"
	"verifsim/simkv"
	"verifsim/simrt"
)

// C06, traversal batches — one server, one client, a sequence of hostile
// traversal requests. Setting up a server costs far more than a small request;
// running some tens of requests per server multiplies the number of programs a
// run reaches. The programs come from the combinatorial part of the hostile
// generator: a state-changing prefix (null travelers, render, count, path,
// aggregate, fields, select, unwind, distinct ...) followed by two or three
// steps drawn from a theme, with mark names kept consistent so that
// as/select/$mark references meet.
//
// Oracle as for hostile-requests: no panic reaches the top of a goroutine and
// the server still answers a trivial query afterwards. Requests that never
// finish are C07/C12's subject and end the batch without a judgement.

type c06bW struct {
	Run      RunCfg           `json:"run"`
	Graph    *model.GraphData `json:"graph"`
	Requests []string         `json:"requests"` // protojson GraphQuery
}

func init() {
	Register(&Scenario{
		Name: "hostile-traversal-batch", Prop: "C06",
		Gen:    func(r *Rng, tier string, seed uint64) interface{} { return genC06b(r, tier) },
		New:    func() interface{} { return &c06bW{} },
		Exec:   func(w interface{}, x *Exec) *Outcome { return execC06b(w.(*c06bW), x) },
		Shrink: func(w interface{}) []interface{} { return shrinkC06b(w.(*c06bW)) },
		Real:   []string{"server Traversal handler", "engine compiler/optimizer/processors/pipeline (Convert)", "kvgraph", "kvindex"},
		Stub:   []string{"storage engine (simkv)", "gRPC transport (in-process streams)"},
	})
}

func genC06b(r *Rng, tier string) *c06bW {
	w := &c06bW{Run: GenRunCfg(r, []int{1, 1, 10})}
	w.Graph = gen.Graph(r, gen.GraphOpts{MaxV: 4, MaxE: 5})
	n := 20 + r.Intn(20)
	for i := 0; i < n; i++ {
		w.Requests = append(w.Requests, pj(&gripql.GraphQuery{Graph: "g", Query: gen.HostileCombo(r, w.Graph)}))
	}
	return w
}

func shrinkC06b(w *c06bW) []interface{} {
	var out []interface{}
	cp := func() *c06bW { n := &c06bW{}; jsonClone(w, n); return n }
	if len(w.Requests) > 1 {
		// single requests first (from the end: the last one that ran is the
		// likeliest culprit), then halves, then dropping one request (a panic may
		// come from goroutines an earlier request left running)
		for i := len(w.Requests) - 1; i >= 0; i-- {
			n := cp()
			n.Requests = []string{w.Requests[i]}
			out = append(out, n)
		}
		h := len(w.Requests) / 2
		n1, n2 := cp(), cp()
		n1.Requests, n2.Requests = n1.Requests[:h], n2.Requests[h:]
		out = append(out, n1, n2)
		if len(w.Requests) <= 12 {
			for i := len(w.Requests) - 1; i >= 0; i-- {
				n := cp()
				n.Requests = append(n.Requests[:i], n.Requests[i+1:]...)
				out = append(out, n)
			}
		}
		return out
	}
	if len(w.Requests) == 1 {
		q := &gripql.GraphQuery{}
		if protojson.Unmarshal([]byte(w.Requests[0]), q) == nil {
			for i := len(q.Query) - 1; i >= 0; i-- {
				q2 := &gripql.GraphQuery{Graph: q.Graph}
				q2.Query = append(append([]*gripql.GraphStatement{}, q.Query[:i]...), q.Query[i+1:]...)
				n := cp()
				n.Requests = []string{pj(q2)}
				out = append(out, n)
			}
		}
	}
	for i := len(w.Graph.E) - 1; i >= 0; i-- {
		n := cp()
		n.Graph.E = append(n.Graph.E[:i], n.Graph.E[i+1:]...)
		out = append(out, n)
	}
	for i := len(w.Graph.V) - 1; i >= 0; i-- {
		n := cp()
		n.Graph.V = append(n.Graph.V[:i], n.Graph.V[i+1:]...)
		out = append(out, n)
	}
	if w.Run.Policy != 0 || w.Run.CapDiv != 1 {
		n := cp()
		n.Run.Policy, n.Run.CapDiv, n.Run.StarveIdx, n.Run.StarveSite = 0, 1, 0, ""
		out = append(out, n)
	}
	return out
}

func execC06b(w *c06bW, x *Exec) *Outcome {
	o := &Outcome{}
	b, _ := jsonMarshal(w)
	o.Fingerprint = hash64(b)
	o.NonTrivial = true
	o.Count("policy:"+simrt.Policy(w.Run.Policy).String(), 1)
	cfg := w.Run.Sim()
	if cfg.MaxSteps == 0 {
		cfg.MaxSteps = 3000000
	}
	cur, finished, stillServing := -1, false, false
	what := ""
	var setupErr error
	res := x.Bubble(cfg, func(s *simrt.Sim) func() bool {
		var srv *simServer
		s.Passive(func() {
			srv, setupErr = newSimServer(cleanDir(x.WorkDir+"/srvb"), simkv.NewDisk(), false)
			if setupErr != nil {
				return
			}
			srv.DB.AddGraph("g")
			g, _ := srv.DB.Graph("g")
			for _, v := range w.Graph.V {
				g.AddVertex(append([]*gdbiVertex{}, toGV(v)))
			}
			for _, e := range w.Graph.E {
				g.AddEdge(append([]*gdbiVertex{}, toGE(e)))
			}
			srv.Srv.VerifRefreshGraphMap()
		})
		if setupErr != nil {
			return nil
		}
		simrt.Go("client:hostile", func() {
			for i, js := range w.Requests {
				q := &gripql.GraphQuery{}
				if protojson.Unmarshal([]byte(js), q) != nil {
					continue
				}
				cur = i
				what = "Traversal " + stmtNamesSafe(q.Query)
				srv.Srv.Traversal(q, &traversalStream{})
				o.Count("requests", 1)
			}
			finished = true
			ts := &traversalStream{}
			if err := srv.Srv.Traversal(&gripql.GraphQuery{Graph: "g", Query: gen.StmtsOf(gen.V(), gen.Count())}, ts); err == nil && len(ts.Rows) == 1 {
				stillServing = true
			}
		})
		return nil
	}, nil)
	switch {
	case setupErr != nil:
		o.Inconclusive = "infra:setup: " + setupErr.Error()
	case res.Infra != "":
		o.Inconclusive = "infra:" + res.Infra
	case len(res.Panics) > 0:
		req := ""
		if cur >= 0 && cur < len(w.Requests) {
			req = w.Requests[cur]
		}
		o.Violation = &Violation{Class: "C06/server-death", Signature: "C06/server-death/" + panicSite(res.Panics[0]), Detail: fmt.Sprintf("while request %d of %d was being served (%s %s; the panic may belong to goroutines an earlier request left running): a panic reached the top of a goroutine (the server process terminates):\n%s", cur+1, len(w.Requests), what, req, res.Panics[0])}
	case res.Verdict == simrt.Budget:
		o.Inconclusive = "step budget"
	case res.Verdict == simrt.Deadlock || res.Verdict == simrt.Livelock:
		o.Count("request_never_finished(not judged here)", 1)
	case !finished:
		o.Inconclusive = "client did not finish"
	case !stillServing:
		o.Violation = &Violation{Signature: "C06/not-serving-after/traversal-batch", Detail: "after the batch the server no longer answers V().count() on graph g; last request " + what}
	}
	return o
}
