package scen

import (
	"fmt"
	"strings"

	"github.com/bmeg/grip/kvgraph"
	"verifsim/gen"
	"verifsim/simkv"
)

// C04, write errors — "every request acknowledged ... is fully present", with
// the storage failing instead of the process dying: for every mutating call of
// a history and every top-level write k it issues, the call is re-executed on a
// clone of the disk whose k-th write fails with an I/O error (that one write
// only; the store keeps working). The server is NOT restarted.
//   - A call that was acknowledged (no error) must be fully present: the
//     observable state equals the abstract state after the call.
//   - A call that reported the error leaves the abstract state before or after
//     the call (graph deletion, multi-write by design, may leave a consistent
//     partial state of that graph only).
//   - What the running server shows is what a restarted server shows: the
//     in-memory side (index field registry, timestamps) must not get ahead of
//     or fall behind the disk.
//   - The server goes on behaving like one that matched that abstract state
//     (the continuation of C04's crash check, on the live handle).

func init() {
	Register(&Scenario{
		Name: "write-error", Prop: "C04", Weight: 12,
		Gen: func(r *Rng, tier string, seed uint64) interface{} {
			w := genC04(r, tier, "crash")
			w.Mode = "write-error"
			return w
		},
		New:    func() interface{} { return &c04W{} },
		Exec:   func(w interface{}, x *Exec) *Outcome { return execC04(w.(*c04W), x) },
		Shrink: func(w interface{}) []interface{} { return shrinkC04(w.(*c04W)) },
	})
}

// errorEnumerate injects an I/O error at every top-level write of op.
func errorEnumerate(h *histRunner, i int, op gen.HOp, rest []gen.HOp, o *Outcome, x *Exec) *Violation {
	dry := h.disk.Clone()
	dh := &histRunner{disk: dry, db: kvgraph.NewKVGraph(dry.Open()), m: h.m.Clone(), u: h.u, workDir: h.workDir}
	dry.Arm(-1, -1, false)
	dry.LogOn = true
	dh.applyReal(op)
	writes := dry.Disarm()
	wlog := dry.WLog
	before := h.m.Clone()
	afterH := &histRunner{m: h.m.Clone()}
	ex := afterH.applyModel(op)
	after := afterH.m
	wantB := observeModel(before, h.u)
	wantA := observeModel(after, h.u)
	for k := range h.masked {
		wantB.dropKind(k)
		wantA.dropKind(k)
	}
	o.Count("write_error_points_enumerated", writes)
	for k := 0; k < writes; k++ {
		c := h.disk.Clone()
		db := kvgraph.NewKVGraph(c.Open())
		ch := &histRunner{disk: c, db: db, m: nil, u: h.u, workDir: h.workDir}
		c.Arm(-1, k, false)
		var callErr error
		var pmsg string
		func() {
			defer func() {
				if r := recover(); r != nil {
					st := make([]byte, 4000)
					st = st[:runtimeStack(st)]
					pmsg = fmt.Sprintf("panic: %v\n%s", r, st)
				}
			}()
			callErr = ch.applyReal(op)
		}()
		fired := c.Faults.Fired["write_error"]
		c.Disarm()
		what := fmt.Sprintf("step %d %s, I/O error at top-level write %d of %d (%s)", i, opString(op), k, writes, strings.Join(wlog, " ; "))
		if pmsg != "" {
			return &Violation{Class: "C04/write-error/panic", Signature: "C04/write-error/panic/" + panicSite("x\n"+pmsg), Detail: what + ": " + pmsg}
		}
		if fired == 0 {
			continue // the call took another path this time: nothing to judge
		}
		o.Count("fault:write_error", 1)
		live := observeReal(db, h.u, h.workDir)
		for kk := range h.masked {
			live.dropKind(kk)
		}
		kb, _, _ := wantB.diff(live)
		ka, wv, gv := wantA.diff(live)
		acked := callErr == nil
		switch {
		case acked && ka != "" && ex.ok:
			return &Violation{Class: "C04/write-error/acknowledged-but-not-applied", Signature: "C04/write-error/acknowledged-but-not-applied/after=" + ex.shape,
				Detail: fmt.Sprintf("%s: the call returned no error, but observable %s is not as after the call\n  expected: %s\n  got:      %s", what, ka, wv, gv)}
		case kb != "" && ka != "":
			if op.Op == "delGraph" {
				if msg := rawConsistency(c); msg != "" {
					return &Violation{Class: "C04/write-error/inconsistent", Signature: "C04/write-error/inconsistent/after=" + ex.shape, Detail: what + ": " + msg}
				}
				if d := otherGraphsDiff(wantB, live, op.G); d != "" {
					return &Violation{Class: "C04/write-error/other-graph-changed", Signature: "C04/write-error/other-graph-changed/after=" + ex.shape, Detail: what + ": " + d}
				}
				o.Count("write_error_outcome:partial_consistent", 1)
				continue
			}
			return &Violation{Class: "C04/write-error/neither-before-nor-after", Signature: "C04/write-error/neither-before-nor-after/after=" + ex.shape,
				Detail: fmt.Sprintf("%s (call error: %v): observable %s is neither as before the call nor as after it\n  after-state expects: %s\n  got:                 %s\n  raw-key check: %s", what, callErr, ka, wv, gv, rawConsistency(c))}
		}
		matched := before
		if kb != "" {
			matched = after
			o.Count("write_error_outcome:call_complete", 1)
		} else {
			o.Count("write_error_outcome:call_absent", 1)
		}
		// the running server and a restarted one agree
		c2 := c.Clone()
		re := observeReal(kvgraph.NewKVGraph(c2.Open()), h.u, h.workDir)
		for kk := range h.masked {
			re.dropKind(kk)
		}
		if k2, lv, rv := live.diff(re); k2 != "" {
			return &Violation{Class: "C04/write-error/memory-and-disk-differ", Signature: "C04/write-error/memory-and-disk-differ/obs=" + obsKind(k2) + "/after=" + ex.shape,
				Detail: fmt.Sprintf("%s (call error: %v): the running server shows %s = %s, a server restarted on the same disk shows %s", what, callErr, k2, lv, rv)}
		}
		// and the running server goes on correctly
		v, reached := afterRecoveryM(c, db, matched, h, rest, what+fmt.Sprintf(" (call error: %v), server not restarted", callErr), o, x)
		if v != nil {
			v.Class = "C04/write-error/afterwards"
			v.Signature = strings.Replace(v.Signature, "C04/crash/after-recovery/", "C04/write-error/afterwards/", 1)
			return v
		}
		if reached != nil {
			// ... and after a clean restart later on (what the failed write left
			// in memory only is gone then): the same continuation once more
			c3 := c.Clone()
			v, _ := afterRecoveryM(c3, kvgraph.NewKVGraph(c3.Open()), reached, h, nil, what+fmt.Sprintf(" (call error: %v), the server went on, was restarted cleanly later", callErr), o, x)
			if v != nil {
				v.Class = "C04/write-error/after-later-restart"
				v.Signature = strings.Replace(v.Signature, "C04/crash/after-recovery/", "C04/write-error/after-later-restart/", 1)
				return v
			}
		}
	}
	return nil
}

var _ = simkv.ErrInjected
