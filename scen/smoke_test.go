package scen

import (
	"context"
	"fmt"
	"testing"
	"testing/synctest"

	"github.com/bmeg/grip/engine/pipeline"
	"github.com/bmeg/grip/engine"
	"github.com/bmeg/grip/gdbi"
	"github.com/bmeg/grip/gripql"
	"github.com/bmeg/grip/kvgraph"
	"verifsim/simkv"
	"verifsim/simrt"
)

func TestSmoke(t *testing.T) {
	for seed := uint64(1); seed <= 3; seed++ {
		synctest.Test(t, func(t *testing.T) {
			s := simrt.New(simrt.Config{Seed: seed, CapDiv: 1})
			defer s.Close()
			disk := simkv.NewDisk()
			var rows int
			simrt.Go("client", func() {
				db := kvgraph.NewKVGraph(disk.Open())
				db.AddGraph("g")
				g, _ := db.Graph("g")
				var vs []*gdbi.Vertex
				for i := 0; i < 10; i++ {
					vs = append(vs, &gdbi.Vertex{ID: fmt.Sprintf("v%d", i), Label: "A", Data: map[string]interface{}{"x": float64(i)}})
				}
				g.AddVertex(vs)
				var es []*gdbi.Edge
				for i := 0; i < 10; i++ {
					es = append(es, &gdbi.Edge{ID: fmt.Sprintf("e%d", i), Label: "L", From: fmt.Sprintf("v%d", i), To: fmt.Sprintf("v%d", (i+1)%10)})
				}
				g.AddEdge(es)
				q := gripql.NewQuery().V().HasLabel("A").Out().Both()
				p, err := g.Compiler().Compile(q.Statements, nil)
				if err != nil {
					panic(err)
				}
				man := engine.NewManager("/tmp/smoke")
				for r := range pipeline.Start(context.Background(), p, man, 100, nil, nil) {
					_ = r
					rows++
				}
				man.Cleanup()
			})
			v := s.Run(nil)
			t.Logf("seed %d verdict %s steps %d rows %d hash %x live %d spawned %d unreg %v panics %v", seed, v, s.Steps, rows, s.TraceHash(), s.Live(), s.Spawned(), s.Unreg, s.Panics)
			s.Kill()
		})
	}
}
