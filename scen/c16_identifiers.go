package scen

import (
	"fmt"
	"sort"
	"unicode/utf8"

	"verifsim/gen"
	"verifsim/simkv"
)

// C16 — accepted identifiers and values are stored verbatim or rejected.
// C03's runner with a hostile universe; the oracle does not predict whether a
// write is accepted: if the call returns an error nothing observable may
// change, if it succeeds the element must read back identical through lookup,
// listing, adjacency and label listing, and every other element and graph must
// be unchanged (refgraph equality after every step). Reopen is in the mix on
// purpose: names are re-discovered by parsing stored keys at open.

func init() {
	Register(&Scenario{
		Name: "hostile", Prop: "C16",
		Gen: func(r *Rng, tier string, seed uint64) interface{} {
			avoid := r.Chance(50)
			w := &c03W{Mode: "hostile", Ops: gen.HostileHistory(r, 7, r.Chance(50), avoid)}
			if avoid {
				w.Avoided = []string{"re-adding an existing edge id with other endpoints or label"}
			}
			return w
		},
		New:    func() interface{} { return &c03W{} },
		Exec:   func(w interface{}, x *Exec) *Outcome { return execC16(w.(*c03W), x) },
		Shrink: func(w interface{}) []interface{} { return shrinkC03(w.(*c03W)) },
		Real:   []string{"kvgraph keys/index/graphdb", "kvindex keys", "gripql validation", "gdbi element conversion"},
		Stub:   []string{"storage engine (simkv)"},
	})
}

func hostileUniverse(ops []gen.HOp) universe {
	gs, vs, es, vl, el := map[string]bool{"g1": true}, map[string]bool{}, map[string]bool{}, map[string]bool{"A": true}, map[string]bool{"A": true}
	for _, op := range ops {
		if op.Op != "reopen" {
			gs[op.G] = true
		}
		for _, v := range op.V {
			vs[v.ID] = true
			vl[v.Label] = true
		}
		for _, e := range op.E {
			es[e.ID] = true
			el[e.Label] = true
			vs[e.From] = true
			vs[e.To] = true
		}
		if op.Op == "delV" {
			vs[op.ID] = true
		}
		if op.Op == "delE" {
			es[op.ID] = true
		}
	}
	ks := func(m map[string]bool) []string {
		var o []string
		for k := range m {
			// identifiers the validation refuses are observed only once a write
			// carrying them was accepted (histRunner.admit)
			if c := idClass(k); c == "contains-0x00" || c == "invalid-utf8" {
				continue
			}
			o = append(o, k)
		}
		sort.Strings(o)
		return o
	}
	return universe{Graphs: ks(gs), VIDs: ks(vs), EIDs: ks(es), VLabels: ks(vl), ELabels: ks(el)}
}

func execC16(w *c03W, x *Exec) *Outcome {
	o := &Outcome{}
	b, _ := jsonMarshal(w.Ops)
	o.Fingerprint = hash64(b)
	o.NonTrivial = len(w.Ops) >= 2
	var viol *Violation
	infra := x.PassiveBubble(func() {
		disk := simkv.NewDisk()
		h := newHistRunner(disk, x.WorkDir, hostileUniverse(w.Ops))
		h.lenient = true
		h.masked = map[string]bool{"vertex-labels": true, "edge-labels": true}
		for i, op := range w.Ops {
			if op.Op == "reopen" {
				o.Count("fault:clean_reopen", 1)
			}
			v := safeStep(h, "C16", i, op)
			if v != nil {
				if x.IsKnown("C16", v.Signature) {
					o.KnownHits = append(o.KnownHits, v.Signature)
					o.Count("ended_at_known", 1)
				}
				viol = v
				return
			}
			o.Count("steps_judged", 1)
			if h.lastErr != nil {
				o.Count("writes_rejected", 1)
			} else if op.Op != "reopen" {
				o.Count("writes_accepted", 1)
			}
		}
	})
	if infra != "" {
		o.Inconclusive = "infra:" + infra
		return o
	}
	o.Violation = viol
	return o
}

// idClass names what is unusual about an identifier (for signatures).
func idClass(s string) string {
	switch {
	case s == "":
		return "empty"
	case containsByte(s, 0):
		return "contains-0x00"
	case !utf8.ValidString(s):
		return "invalid-utf8"
	case containsByte(s, 1):
		return "contains-0x01"
	case len(s) > 100:
		return "very-long"
	case s == "label" || s == "v" || s == "e" || s == "data" || s == "gid":
		return "internal-word(" + s + ")"
	}
	for _, c := range s {
		if c > 127 {
			return "non-ascii"
		}
		if c == '|' || c == '.' || c == '/' || c == ' ' || c == '\n' || c == '%' || c == '\'' {
			return fmt.Sprintf("contains(%q)", string(c))
		}
	}
	return "plain"
}

func containsByte(s string, b byte) bool {
	for i := 0; i < len(s); i++ {
		if s[i] == b {
			return true
		}
	}
	return false
}
