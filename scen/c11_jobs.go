//go:build verif

package scen

import (
	"context"
	"fmt"
	"os"
	"sort"
	"strings"

	"github.com/bmeg/grip/gripql"
	"verifsim/gen"
	"verifsim/model"
	"verifsim/simkv"
	"verifsim/simrt"
)

// C11 — jobs faithfully store, resume and find traversals.
// Graph on the simulated disk; the real FSJobStorage on a scratch directory
// (real files: the job store has no storage seam; file operations are yield
// points); a simulated client performs seeded sequences of Submit, poll until
// COMPLETE (simulated time), ViewJob, ResumeJob with extra steps, SearchJobs,
// ListJobs, DeleteJob and restart (a new storage object over the same
// directory). Oracles: stored rows == rows of the direct traversal (multiset)
// and Status.Count == their number; resume(P, S) == direct(P ++ S); search
// results are jobs on that graph whose statements are a prefix of the query,
// and include every such job of >= 2 steps; after a restart every job seen
// COMPLETE is listed, readable and resumable with identical content; a deleted
// job is gone before and after restart.

type jobOp struct {
	Op    string   `json:"op"` // submit view resume search list delete restart
	Prog  []string `json:"prog,omitempty"`
	Split int      `json:"split,omitempty"` // resume: the job is prog[:split], the extension prog[split:]
	Job   int      `json:"job,omitempty"`   // index of an earlier submitted job
}

type c11W struct {
	Run   RunCfg           `json:"run"`
	Graph *model.GraphData `json:"graph"`
	Ops   []jobOp          `json:"ops"`
	BigRow bool            `json:"big_row,omitempty"`
	// a reader of stored results that stalls: after StallAfter rows it pauses
	// for StallUs of simulated time, then goes on reading
	StallAfter int `json:"stall_after,omitempty"`
	StallUs    int `json:"stall_us,omitempty"`
}

func init() {
	Register(&Scenario{
		Name: "jobs", Prop: "C11",
		Gen:    func(r *Rng, tier string, seed uint64) interface{} { return genC11(r, tier) },
		New:    func() interface{} { return &c11W{} },
		Exec:   func(w interface{}, x *Exec) *Outcome { return execC11(w.(*c11W), x) },
		Shrink: func(w interface{}) []interface{} { return shrinkC11(w.(*c11W)) },
		Real:   []string{"jobstorage (storage.go, serializer.go, query_checksum.go) on real files", "server job handlers (Submit, GetJob, ViewJob, ResumeJob, SearchJobs, ListJobs, DeleteJob)", "engine compile (pipeline extension), pipeline Start/Resume/Convert", "gdbi traveler JSON", "kvgraph"},
		Stub:   []string{"storage engine of the graph (simkv)", "gRPC transport (in-process streams)"},
	})
}

func deterministicProg(r *Rng, g *model.GraphData) []*gripql.GraphStatement {
	for tries := 0; tries < 50; tries++ {
		p := gen.Program(r, g, gen.ProgOpts{MaxLen: 6, NoTrunc: true, NoNull: true})
		ok := gen.TypeCheck(p) == gen.WellTyped
		for _, s := range p {
			if d, isD := s.Statement.(*gripql.GraphStatement_Distinct); isD {
				f := d.Distinct.AsSlice()
				if len(f) > 0 {
					ok = false
				}
			}
			switch s.Statement.(type) {
			case *gripql.GraphStatement_Unwind, *gripql.GraphStatement_Limit, *gripql.GraphStatement_Skip, *gripql.GraphStatement_Range:
				ok = false
			}
		}
		if ok {
			return p
		}
	}
	return gen.StmtsOf(gen.V(), gen.Out())
}

func genC11(r *Rng, tier string) *c11W {
	w := &c11W{Run: GenRunCfg(r, []int{1, 1, 10, 100})}
	// result sizes around the worker count (4), the worker queues (10), the merge buffer (40)
	maxV := []int{3, 6, 12, 45}[r.Intn(4)]
	w.Graph = gen.Graph(r, gen.GraphOpts{MaxV: maxV, MaxE: maxV * 2})
	if r.Chance(12) && len(w.Graph.V) > 0 {
		// a stored row larger than the usual line/scan buffers (64 KiB, 1 MiB)
		v := w.Graph.V[r.Intn(len(w.Graph.V))]
		if v.Data == nil {
			v.Data = map[string]interface{}{}
		}
		v.Data["big"] = strings.Repeat("x", []int{65500, 66000, 140000, 1100000}[r.Intn(4)])
		w.BigRow = true
	}
	if r.Chance(30) {
		w.Run.SlowSite, w.Run.SlowPct = "serializer.go", 20
	}
	if r.Chance(15) {
		w.StallAfter, w.StallUs = 1+r.Intn(5), []int{12000000, 90000000}[r.Intn(2)]
	}
	n := 2 + r.Intn(6)
	submitted := 0
	for len(w.Ops) < n {
		switch k := r.Intn(100); {
		case k < 35 || submitted == 0:
			p := deterministicProg(r, w.Graph)
			if r.Chance(10) {
				p = append(p, gen.Aggregate(&gripql.Aggregate{Name: "c", Aggregation: &gripql.Aggregate_Count{Count: &gripql.CountAggregation{}}}))
			}
			w.Ops = append(w.Ops, jobOp{Op: "submit", Prog: gen.StmtsJSON(p)})
			submitted++
		case k < 50:
			w.Ops = append(w.Ops, jobOp{Op: "view", Job: r.Intn(submitted)})
		case k < 68:
			// a program split into a job and its extension
			p := deterministicProg(r, w.Graph)
			if len(p) < 2 {
				continue
			}
			split := 1 + r.Intn(len(p)-1)
			pre := p[:split]
			switch gen.TypeCheck(pre) {
			case gen.WellTyped:
			default:
				continue
			}
			w.Ops = append(w.Ops, jobOp{Op: "resume", Prog: gen.StmtsJSON(p), Split: split})
			submitted++
		case k < 78:
			p := deterministicProg(r, w.Graph)
			w.Ops = append(w.Ops, jobOp{Op: "search", Prog: gen.StmtsJSON(p), Job: r.Intn(submitted)})
		case k < 84:
			w.Ops = append(w.Ops, jobOp{Op: "list"})
		case k < 92:
			w.Ops = append(w.Ops, jobOp{Op: "delete", Job: r.Intn(submitted)})
		default:
			w.Ops = append(w.Ops, jobOp{Op: "restart"})
		}
	}
	return w
}

func shrinkC11(w *c11W) []interface{} {
	var out []interface{}
	cp := func() *c11W { n := &c11W{}; jsonClone(w, n); return n }
	for i := len(w.Ops) - 1; i >= 0; i-- {
		if w.Ops[i].Op == "submit" || w.Ops[i].Op == "resume" {
			continue // job indexes of later operations refer to them
		}
		n := cp()
		n.Ops = append(n.Ops[:i], n.Ops[i+1:]...)
		out = append(out, n)
	}
	for i := len(w.Graph.E) - 1; i >= 0; i-- {
		n := cp()
		n.Graph.E = append(n.Graph.E[:i], n.Graph.E[i+1:]...)
		out = append(out, n)
	}
	for i := len(w.Graph.V) - 1; i >= 0; i-- {
		n := cp()
		n.Graph.V = append(n.Graph.V[:i], n.Graph.V[i+1:]...)
		out = append(out, n)
	}
	if w.Run.Policy != 0 || w.Run.CapDiv != 1 || w.Run.SlowPct != 0 {
		n := cp()
		n.Run.Policy, n.Run.CapDiv, n.Run.StarveIdx, n.Run.StarveSite, n.Run.SlowPct = 0, 1, 0, "", 0
		out = append(out, n)
	}
	return out
}

type jobRec struct {
	id      string
	prog    []*gripql.GraphStatement
	rows    []string // rows of the direct traversal
	done    bool     // observed COMPLETE
	deleted bool
	typeOK  bool
}

func execC11(w *c11W, x *Exec) *Outcome {
	o := &Outcome{}
	b, _ := jsonMarshal(w)
	o.Fingerprint = hash64(b)
	o.NonTrivial = len(w.Ops) >= 2
	o.Count("policy:"+simrt.Policy(w.Run.Policy).String(), 1)
	if w.Run.CapDiv > 1 {
		o.Count("fault:buffer_scaling", 1)
	}
	if w.Run.SlowPct > 0 {
		o.Count("fault:slow_serializer_workers", 1)
	}
	if w.BigRow {
		o.Count("fault:row_larger_than_scan_buffers", 1)
	}
	if w.StallUs > 0 {
		o.Count("fault:stalled_reader_of_stored_results", 1)
	}
	cfg := w.Run.Sim()
	if cfg.MaxSteps == 0 {
		cfg.MaxSteps = 4000000
	}
	var viol *Violation
	var setupErr error
	os.RemoveAll(x.WorkDir + "/c11") // job files of earlier cases must not be found by this one
	res := x.Bubble(cfg, func(s *simrt.Sim) func() bool {
		var srv *simServer
		s.Passive(func() {
			srv, setupErr = newSimServer(x.WorkDir+"/c11", simkv.NewDisk(), true)
			if setupErr != nil {
				return
			}
			srv.DB.AddGraph("g")
			g, _ := srv.DB.Graph("g")
			for _, v := range w.Graph.V {
				g.AddVertex([]*gdbiVertex{toGV(v)})
			}
			for _, e := range w.Graph.E {
				g.AddEdge([]*gdbiVertex{toGE(e)})
			}
			srv.Srv.VerifRefreshGraphMap()
		})
		if setupErr != nil {
			return nil
		}
		simrt.Go("client:jobs", func() {
			ctx := context.Background()
			var jobs []*jobRec
			direct := func(p []*gripql.GraphStatement) ([]string, error) {
				ts := &traversalStream{}
				err := srv.Srv.Traversal(&gripql.GraphQuery{Graph: "g", Query: p}, ts)
				return ts.Rows, err
			}
			fail := func(cls, sig, detail string) {
				if viol == nil {
					viol = &Violation{Class: cls, Signature: sig, Detail: detail}
				}
			}
			submit := func(p []*gripql.GraphStatement) *jobRec {
				rows, derr := direct(p)
				job, err := srv.submitUnary(&gripql.GraphQuery{Graph: "g", Query: p})
				if (err == nil) != (derr == nil) {
					fail("C11/submit-disagrees", "C11/submit-disagrees-with-direct-traversal", fmt.Sprintf("%s: direct traversal error %v, submit error %v", stmtNames(p), derr, err))
					return nil
				}
				if err != nil || job == nil {
					return nil
				}
				jr := &jobRec{id: job.Id, prog: p, rows: rows}
				for k := 0; k < 600; k++ {
					st, e := srv.Srv.GetJob(ctx, job)
					if e != nil {
						fail("C11/status", "C11/status-error-for-submitted-job", e.Error())
						return nil
					}
					if st.State == gripql.JobState_COMPLETE {
						jr.done = true
						if int(st.Count) != len(rows) {
							fail("C11/count", "C11/status-count-differs", fmt.Sprintf("%s: status count %d, direct traversal returned %d rows", stmtNames(p), st.Count, len(rows)))
						}
						break
					}
					if st.State == gripql.JobState_ERROR {
						break
					}
					// back off on the simulated clock: while the job's goroutines are busy
					// simulated time passes slowly (they get thousands of steps per
					// simulated second); when they are all blocked it jumps
					d := 1000 << uint(mini(k, 10))
					sleepSim(d)
				}
				if !jr.done {
					fail("C11/never-complete", "C11/job-never-completes", stmtNames(p))
					return nil
				}
				o.Count("jobs_completed", 1)
				jobs = append(jobs, jr)
				return jr
			}
			view := func(jr *jobRec, when string) {
				ts := &traversalStream{}
				if w.StallUs > 0 {
					ts.OnRow = func(n int) {
						if n == w.StallAfter {
							simrt.Probe("reader of stored results stalled")
							sleepSim(w.StallUs)
						}
					}
				}
				srv.Srv.ViewJob(&gripql.QueryJob{Graph: "g", Id: jr.id}, ts)
				if jr.deleted {
					if len(ts.Rows) > 0 {
						fail("C11/deleted", "C11/deleted-job-still-readable/"+when, stmtNames(jr.prog))
					}
					return
				}
				if d := model.MultisetDiff(jr.rows, ts.Rows); d != "" {
					fail("C11/stored-rows/"+when, "C11/stored-rows-differ/"+when+"/"+resultKind(jr.rows), fmt.Sprintf("job %s (%s) %s: direct traversal (expected) vs stored rows (got): %s", jr.id, stmtNames(jr.prog), when, d))
				}
				o.Count("views_checked", 1)
			}
			listed := func() map[string]bool {
				ls := &jobListStream{}
				srv.Srv.ListJobs(&gripql.GraphID{Graph: "g"}, ls)
				m := map[string]bool{}
				for _, j := range ls.Jobs {
					m[j.Id] = true
				}
				return m
			}
			restarted := false
			for i, op := range w.Ops {
				if viol != nil {
					return
				}
				when := "before-restart"
				if restarted {
					when = "after-restart"
				}
				switch op.Op {
				case "submit":
					p, err := gen.StmtsFromJSON(op.Prog)
					if err != nil {
						continue
					}
					if jr := submit(p); jr != nil {
						view(jr, when)
					}
				case "view":
					if op.Job < len(jobs) {
						view(jobs[op.Job], when)
					}
				case "resume":
					p, err := gen.StmtsFromJSON(op.Prog)
					if err != nil || op.Split >= len(p) {
						continue
					}
					jr := submit(p[:op.Split])
					if jr == nil {
						continue
					}
					want, derr := direct(p)
					ts := &traversalStream{}
					rerr := srv.Srv.ResumeJob(&gripql.ExtendQuery{Graph: "g", SrcId: jr.id, Query: p[op.Split:]}, ts)
					if (derr == nil) != (rerr == nil) {
						fail("C11/resume-compile", "C11/resume-compile-disagrees", fmt.Sprintf("%s split at %d: direct error %v, resume error %v", stmtNames(p), op.Split, derr, rerr))
						continue
					}
					if derr != nil {
						continue
					}
					if d := model.MultisetDiff(want, ts.Rows); d != "" {
						fail("C11/resume-rows/"+when, "C11/resume-rows-differ/"+when+"/"+stmtNames(p[op.Split-1:op.Split+1]), fmt.Sprintf("step %d: job %s + extension %s: direct %s (expected) vs resumed (got): %s", i, stmtNames(p[:op.Split]), stmtNames(p[op.Split:]), stmtNames(p), d))
					}
					o.Count("resumes_checked", 1)
				case "search":
					q, err := gen.StmtsFromJSON(op.Prog)
					if err != nil {
						continue
					}
					// search with a query that extends an existing job's program half of the time
					if op.Job < len(jobs) && i%2 == 0 {
						q = append(append([]*gripql.GraphStatement{}, jobs[op.Job].prog...), gen.Out(), gen.Count())
					} else if op.Job < len(jobs) && i%3 == 0 {
						// nearly the program of an existing job: a list argument in another
						// order, or with an element added twice (a different traversal as
						// far as prefixes go)
						if v := variantOfListArgs(jobs[op.Job].prog); v != nil {
							q = append(v, gen.Count())
							o.Count("searches_with_permuted_list_arguments", 1)
						}
					}
					ss := &jobStatusStream{}
					srv.Srv.SearchJobs(&gripql.GraphQuery{Graph: "g", Query: q}, ss)
					found := map[string]bool{}
					for _, st := range ss.Jobs {
						found[st.Id] = true
					}
					qs := gen.StmtsJSON(q)
					for _, jr := range jobs {
						js := gen.StmtsJSON(jr.prog)
						isPrefix := len(js) <= len(qs)
						for k := 0; isPrefix && k < len(js); k++ {
							if js[k] != qs[k] {
								isPrefix = false
							}
						}
						if found[jr.id] && (!isPrefix || jr.deleted) {
							fail("C11/search", "C11/search-returned-non-prefix-or-deleted-job/"+when, fmt.Sprintf("search %s returned job %s (%s) deleted=%v", stmtNames(q), jr.id, stmtNames(jr.prog), jr.deleted))
						}
						if !found[jr.id] && isPrefix && !jr.deleted && len(js) >= 2 {
							fail("C11/search", "C11/search-missed-prefix-job/"+when, fmt.Sprintf("search %s did not return job %s (%s), a prefix of %d steps", stmtNames(q), jr.id, stmtNames(jr.prog), len(js)))
						}
					}
					for id := range found {
						known := false
						for _, jr := range jobs {
							if jr.id == id {
								known = true
							}
						}
						if !known {
							fail("C11/search", "C11/search-returned-unknown-job", id)
						}
					}
					o.Count("searches_checked", 1)
				case "list":
					m := listed()
					for _, jr := range jobs {
						if jr.deleted && m[jr.id] {
							fail("C11/list", "C11/deleted-job-still-listed/"+when, jr.id)
						}
						if !jr.deleted && jr.done && !m[jr.id] {
							fail("C11/list", "C11/completed-job-not-listed/"+when, jr.id+" "+stmtNames(jr.prog))
						}
					}
					o.Count("lists_checked", 1)
				case "delete":
					if op.Job < len(jobs) {
						jr := jobs[op.Job]
						if _, err := srv.Srv.DeleteJob(ctx, &gripql.QueryJob{Graph: "g", Id: jr.id}); err == nil {
							jr.deleted = true
						}
						view(jr, when)
					}
				case "restart":
					o.Count("fault:restart_job_storage", 1)
					srv.restartJobs()
					restarted = true
					m := listed()
					var ids []string
					for _, jr := range jobs {
						ids = append(ids, jr.id)
						if !jr.deleted && jr.done && !m[jr.id] {
							fail("C11/restart", "C11/completed-job-lost-by-restart", jr.id+" "+stmtNames(jr.prog))
						}
						if jr.deleted && m[jr.id] {
							fail("C11/restart", "C11/deleted-job-back-after-restart", jr.id)
						}
					}
					sort.Strings(ids)
					for _, jr := range jobs {
						if viol == nil {
							view(jr, "after-restart")
						}
					}
				}
			}
		})
		return nil
	}, nil)
	switch {
	case setupErr != nil:
		o.Inconclusive = "infra:setup: " + setupErr.Error()
	case res.Infra != "":
		o.Inconclusive = "infra:" + res.Infra
	case len(res.Panics) > 0:
		o.Violation = &Violation{Class: "C11/server-death", Signature: "C11/server-death/" + panicSite(res.Panics[0]), Detail: res.Panics[0]}
	case res.Verdict == simrt.Budget:
		o.Inconclusive = "step budget"
	case res.Verdict != simrt.Done:
		o.Violation = &Violation{Class: "C11/stuck", Signature: fmt.Sprintf("C11/%s/%s", res.Verdict, blockedSig(res.LiveSites)), Detail: fmt.Sprintf("job workload never finished: %v", res.LiveSites)}
	default:
		o.Violation = viol
	}
	if o.Violation != nil && x.IsKnown("C11", o.Violation.Signature) {
		o.KnownHits = append(o.KnownHits, o.Violation.Signature)
	}
	return o
}

func resultKind(rows []string) string {
	if len(rows) == 0 {
		return "empty"
	}
	r := rows[0]
	for _, k := range []string{"vertex", "edge", "count", "selections", "render", "path", "aggregations"} {
		if strings.HasPrefix(r, `{"`+k+`"`) {
			return k
		}
	}
	return "other"
}

// variantOfListArgs returns prog with the first list-valued argument changed:
// two elements swapped, or (one-element and empty lists) an element added
// twice. nil when prog has no such argument.
func variantOfListArgs(prog []*gripql.GraphStatement) []*gripql.GraphStatement {
	js := gen.StmtsJSON(prog)
	for i, st := range prog {
		var l []string
		mk := func(n []string) *gripql.GraphStatement { return nil }
		switch x := st.Statement.(type) {
		case *gripql.GraphStatement_V:
			l, mk = listOf(x.V), func(n []string) *gripql.GraphStatement { return gen.V(n...) }
		case *gripql.GraphStatement_E:
			l, mk = listOf(x.E), func(n []string) *gripql.GraphStatement { return gen.E(n...) }
		case *gripql.GraphStatement_Out:
			l, mk = listOf(x.Out), func(n []string) *gripql.GraphStatement { return gen.Out(n...) }
		case *gripql.GraphStatement_In:
			l, mk = listOf(x.In), func(n []string) *gripql.GraphStatement { return gen.In(n...) }
		case *gripql.GraphStatement_OutE:
			l, mk = listOf(x.OutE), func(n []string) *gripql.GraphStatement { return gen.OutE(n...) }
		case *gripql.GraphStatement_HasLabel:
			l, mk = listOf(x.HasLabel), func(n []string) *gripql.GraphStatement { return gen.HasLabel(n...) }
		case *gripql.GraphStatement_HasId:
			l, mk = listOf(x.HasId), func(n []string) *gripql.GraphStatement { return gen.HasID(n...) }
		default:
			continue
		}
		var n []string
		if len(l) >= 2 && l[0] != l[1] {
			n = append([]string{l[1], l[0]}, l[2:]...)
		} else {
			n = append(append([]string{}, l...), "zz-twice", "zz-twice")
		}
		ns := mk(n)
		if ns == nil || gen.StmtsJSON([]*gripql.GraphStatement{ns})[0] == js[i] {
			continue
		}
		out := append([]*gripql.GraphStatement{}, prog...)
		out[i] = ns
		return out
	}
	return nil
}

func listOf(l interface{ AsSlice() []interface{} }) []string {
	var out []string
	if l == nil {
		return out
	}
	defer func() { recover() }()
	for _, v := range l.AsSlice() {
		if s, ok := v.(string); ok {
			out = append(out, s)
		}
	}
	return out
}
