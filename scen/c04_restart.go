package scen

import (
	"bytes"
	"fmt"
	"github.com/bmeg/grip/gdbi"
	"strings"

	"github.com/bmeg/grip/kvgraph"
	"github.com/bmeg/grip/kvindex"
	"verifsim/gen"
	"verifsim/model"
	"verifsim/simkv"
)

// C04 — reopening a database (cleanly or after a crash) preserves a
// consistent graph.
//
// restart: C03 histories with a clean close/reopen inserted at seeded
// positions (every position for short histories); the state after the reopen
// and the behaviour of the rest of the history must be those of a server that
// never stopped (in particular the label index for vertices written after the
// reopen).
//
// crash: for a mutating call of a history, the top-level key-value writes it
// issues are counted on a clone of the disk; then for EVERY k the call is
// re-executed on a fresh clone with "crash before write k" (the disk freezes),
// the store is reopened and the observable state must equal the abstract state
// before the call or after it. For the calls the property allows to be
// multi-write (graph deletion) a partial state is accepted when it is
// consistent: every adjacency entry has its edge record and vice versa, every
// vertex is found through the label index, other graphs are untouched.

type c04W struct {
	Ops           []gen.HOp `json:"ops"`
	Mode          string    `json:"mode"`               // restart | crash
	CrashOp       int       `json:"crash_op,omitempty"` // crash: index of the call that crashes (-1: every mutating call in turn)
	CommitOnError bool      `json:"kv_commit_on_error,omitempty"`
	// U replaces the small observation universe (crash-volume: a hub vertex
	// with hundreds of incident edges; only a few identifiers are looked up
	// one by one, the listings cover the rest)
	U *universe `json:"universe,omitempty"`
}

func init() {
	Register(&Scenario{
		Name: "restart", Prop: "C04", Weight: 20,
		Gen:    func(r *Rng, tier string, seed uint64) interface{} { return genC04(r, tier, "restart") },
		New:    func() interface{} { return &c04W{} },
		Exec:   func(w interface{}, x *Exec) *Outcome { return execC04(w.(*c04W), x) },
		Shrink: func(w interface{}) []interface{} { return shrinkC04(w.(*c04W)) },
		Real:   []string{"kvgraph (new.go, graph.go, graphdb.go, index.go)", "kvindex (NewIndex, AddField, AddDocTx)", "timestamp"},
		Stub:   []string{"storage engine (simkv: atomic top-level writes, crash = freeze, reopen)"},
	})
	Register(&Scenario{
		Name: "crash-volume", Prop: "C04", Weight: 1,
		Gen:    func(r *Rng, tier string, seed uint64) interface{} { return genC04Volume(r, tier) },
		New:    func() interface{} { return &c04W{} },
		Exec:   func(w interface{}, x *Exec) *Outcome { return execC04(w.(*c04W), x) },
		Shrink: func(w interface{}) []interface{} { return shrinkC04(w.(*c04W)) },
	})
	Register(&Scenario{
		Name: "crash", Prop: "C04", Weight: 40,
		Gen:    func(r *Rng, tier string, seed uint64) interface{} { return genC04(r, tier, "crash") },
		New:    func() interface{} { return &c04W{} },
		Exec:   func(w interface{}, x *Exec) *Outcome { return execC04(w.(*c04W), x) },
		Shrink: func(w interface{}) []interface{} { return shrinkC04(w.(*c04W)) },
	})
}

// genC04Volume: calls that touch hundreds of keys. A mutating call stays one
// atomic top-level write however many keys it touches; an implementation that
// splits it (per-batch transactions, chunked commits) exposes states between
// the pieces, and only a vertex of high degree or a long batch reaches them.
func genC04Volume(r *Rng, tier string) *c04W {
	w := &c04W{Mode: "crash", CrashOp: -1}
	n := []int{180, 350, 420}[r.Intn(3)]
	if tier == "thorough" {
		n = []int{120, 180, 350, 420, 700, 1100}[r.Intn(6)]
	}
	g := "g1"
	var vs []*model.Vertex
	var es []*model.Edge
	vs = append(vs, &model.Vertex{ID: "hub", Label: "A"})
	for i := 0; i < n; i++ {
		id := fmt.Sprintf("s%d", i)
		vs = append(vs, &model.Vertex{ID: id, Label: gen.VLabels[i%len(gen.VLabels)]})
		e := &model.Edge{ID: fmt.Sprintf("x%d", i), Label: gen.ELabels[i%len(gen.ELabels)], From: id, To: "hub"}
		if r.Chance(30) {
			e.From, e.To = "hub", id
		}
		es = append(es, e)
	}
	w.Ops = []gen.HOp{{Op: "addGraph", G: g, TickUs: 5}}
	if r.Chance(50) {
		w.Ops = append(w.Ops, gen.HOp{Op: "batch", G: g, V: vs, TickUs: 5}, gen.HOp{Op: "batch", G: g, E: es, TickUs: 5})
	} else {
		w.Ops = append(w.Ops, gen.HOp{Op: "bulk", G: g, V: vs, E: es, TickUs: 5})
	}
	switch r.Intn(4) {
	case 0, 1:
		w.Ops = append(w.Ops, gen.HOp{Op: "delV", G: g, ID: "hub", TickUs: 5})
	case 2:
		w.Ops = append(w.Ops, gen.HOp{Op: "delE", G: g, ID: "x1", TickUs: 5}, gen.HOp{Op: "delV", G: g, ID: "hub", TickUs: 5})
	default:
		w.Ops = append(w.Ops, gen.HOp{Op: "delGraph", G: g, TickUs: 5})
	}
	w.U = &universe{Graphs: []string{g, "g2"}, VIDs: []string{"hub", "s0", "s1", fmt.Sprintf("s%d", n-1)}, EIDs: []string{"x0", "x1", fmt.Sprintf("x%d", n-1)}, VLabels: gen.VLabels, ELabels: gen.ELabels}
	return w
}

func genC04(r *Rng, tier string, mode string) *c04W {
	w := &c04W{Mode: mode, CrashOp: -1, CommitOnError: r.Chance(30)}
	o := gen.HistOpts{MaxLen: 10, Invalid: r.Chance(30), Bulk: true, Avoid: map[string]bool{"readd-edge-changed": true}}
	if r.Chance(40) {
		o.MaxLen = 4
	}
	ops := gen.History(r, o)
	if mode == "restart" {
		var out []gen.HOp
		every := len(ops) <= 4
		for _, op := range ops {
			out = append(out, op)
			if every || r.Chance(35) {
				out = append(out, gen.HOp{Op: "reopen", TickUs: 1 + r.Intn(1000)})
			}
		}
		ops = out
	}
	w.Ops = ops
	return w
}

func shrinkC04(w *c04W) []interface{} {
	var out []interface{}
	cp := func() *c04W { n := &c04W{}; jsonClone(w, n); return n }
	if w.U != nil {
		// crash-volume: whole calls are dropped and the crash is pinned to one
		// call; the long batches themselves are the point of the case
		for i := len(w.Ops) - 1; i >= 1; i-- {
			n := cp()
			n.Ops = append(n.Ops[:i], n.Ops[i+1:]...)
			if n.CrashOp > i {
				n.CrashOp--
			} else if n.CrashOp == i {
				continue
			}
			out = append(out, n)
		}
		if w.CrashOp < 0 {
			for i := range w.Ops {
				n := cp()
				n.CrashOp = i
				out = append(out, n)
			}
		}
		return out
	}
	for i := len(w.Ops) - 1; i >= 0; i-- {
		n := cp()
		n.Ops = append(n.Ops[:i], n.Ops[i+1:]...)
		if n.CrashOp > i {
			n.CrashOp--
		} else if n.CrashOp == i {
			continue
		}
		out = append(out, n)
	}
	if (w.Mode == "crash" || w.Mode == "write-error") && w.CrashOp < 0 {
		for i := range w.Ops {
			n := cp()
			n.CrashOp = i
			out = append(out, n)
		}
	}
	for i, op := range w.Ops {
		if len(op.V)+len(op.E) > 1 {
			n := cp()
			if len(op.V) > 0 {
				n.Ops[i].V = n.Ops[i].V[:len(op.V)-1]
			} else {
				n.Ops[i].E = n.Ops[i].E[:len(op.E)-1]
			}
			out = append(out, n)
		}
	}
	return out
}

func mutating(op gen.HOp) bool { return op.Op != "reopen" }

// rawConsistency checks the store's own invariants on the raw keys.
func rawConsistency(disk *simkv.Disk) string {
	keys := map[string]bool{}
	dump := disk.Dump()
	for _, kv := range dump {
		keys[string(kv[0])] = true
	}
	for _, kv := range dump {
		k := kv[0]
		if len(k) < 2 || k[1] != 0 {
			continue
		}
		parts := bytes.Split(k, []byte{0})
		switch k[0] {
		case 's':
			if len(parts) < 7 {
				return "malformed adjacency key " + simkv.FmtKey(k)
			}
			g, src, dst, eid, label, et := kvgraph.SrcEdgeKeyParse(k)
			if !keys[string(kvgraph.EdgeKey(g, eid, src, dst, label, et))] {
				return "by-source adjacency entry without its edge record: " + simkv.FmtKey(k)
			}
			if !keys[string(kvgraph.DstEdgeKey(g, src, dst, eid, label, et))] {
				return "by-source adjacency entry without its by-destination twin: " + simkv.FmtKey(k)
			}
		case 'd':
			if len(parts) < 7 {
				return "malformed adjacency key " + simkv.FmtKey(k)
			}
			g, src, dst, eid, label, et := kvgraph.DstEdgeKeyParse(k)
			if !keys[string(kvgraph.EdgeKey(g, eid, src, dst, label, et))] {
				return "by-destination adjacency entry without its edge record: " + simkv.FmtKey(k)
			}
		case 'e':
			if len(parts) < 7 {
				return "malformed edge key " + simkv.FmtKey(k)
			}
			g, eid, src, dst, label, et := kvgraph.EdgeKeyParse(k)
			if !keys[string(kvgraph.SrcEdgeKey(g, src, dst, eid, label, et))] || !keys[string(kvgraph.DstEdgeKey(g, src, dst, eid, label, et))] {
				return "edge record not reachable through both adjacency indexes: " + simkv.FmtKey(k)
			}
		case 'v':
			if len(parts) < 3 {
				continue
			}
			_ = kvindex.TermString
		}
	}
	return ""
}

func execC04(w *c04W, x *Exec) *Outcome {
	o := &Outcome{}
	b, _ := jsonMarshal(w)
	o.Fingerprint = hash64(b)
	o.NonTrivial = len(w.Ops) >= 2
	o.Count("mode:"+w.Mode, 1)
	if w.CommitOnError {
		o.Count("config:kv_bulk_commit_on_error", 1)
	}
	var viol *Violation
	infra := x.PassiveBubble(func() {
		disk := simkv.NewDisk()
		disk.CommitOnError = w.CommitOnError
		u := hUniverse
		if w.U != nil {
			u = *w.U
		}
		h := newHistRunner(disk, x.WorkDir, u)
		h.masked = map[string]bool{"vertex-labels": true, "edge-labels": true} // known findings of C03, independent observables
		for i, op := range w.Ops {
			if op.Op == "reopen" {
				o.Count("fault:clean_reopen", 1)
			}
			if w.Mode == "write-error" && mutating(op) && (w.CrashOp < 0 || w.CrashOp == i) {
				if v := errorEnumerate(h, i, op, w.Ops[i+1:], o, x); v != nil {
					viol = v
					return
				}
			}
			if w.Mode == "crash" && mutating(op) && (w.CrashOp < 0 || w.CrashOp == i) {
				if v := crashEnumerate(h, i, op, w.Ops[i+1:], o, x); v != nil {
					viol = v
					return
				}
			}
			if v := safeStep(h, "C04", i, op); v != nil {
				if x.IsKnown("C03", strings.Replace(v.Signature, "C04/", "C03/", 1)) || x.IsKnown("C04", v.Signature) {
					o.KnownHits = append(o.KnownHits, v.Signature)
					o.Count("ended_at_known", 1)
					if x.IsKnown("C04", v.Signature) {
						viol = v
					}
					return
				}
				// a plain history divergence with no restart involved is C03's subject
				if w.Mode == "restart" && !historyHasReopenBefore(w.Ops, i) {
					o.Count("ended_at_C03_divergence", 1)
					return
				}
				if w.Mode == "crash" || w.Mode == "write-error" {
					o.Count("ended_at_C03_divergence", 1)
					return
				}
				viol = v
				return
			}
			o.Count("steps_judged", 1)
		}
	})
	if infra != "" {
		o.Inconclusive = "infra:" + infra
		return o
	}
	o.Violation = viol
	return o
}

func historyHasReopenBefore(ops []gen.HOp, i int) bool {
	for j := 0; j <= i && j < len(ops); j++ {
		if ops[j].Op == "reopen" {
			return true
		}
	}
	return false
}

// crashEnumerate injects a crash before every top-level write of op.
func crashEnumerate(h *histRunner, i int, op gen.HOp, rest []gen.HOp, o *Outcome, x *Exec) *Violation {
	// dry run on a clone: how many top-level writes does the call issue?
	dry := h.disk.Clone()
	dh := &histRunner{disk: dry, db: kvgraph.NewKVGraph(dry.Open()), m: h.m.Clone(), u: h.u, workDir: h.workDir}
	dry.Arm(-1, -1, false)
	dry.LogOn = true
	dh.applyReal(op)
	writes := dry.Disarm()
	wlog := dry.WLog
	before := h.m.Clone()
	afterH := &histRunner{m: h.m.Clone()}
	ex := afterH.applyModel(op)
	after := afterH.m
	wantB := observeModel(before, h.u)
	wantA := observeModel(after, h.u)
	for k := range h.masked {
		wantB.dropKind(k)
		wantA.dropKind(k)
	}
	o.Count("crash_points_enumerated", writes)
	for k := 0; k < writes; k++ {
		c := h.disk.Clone()
		db := kvgraph.NewKVGraph(c.Open())
		ch := &histRunner{disk: c, db: db, m: nil, u: h.u, workDir: h.workDir}
		c.Arm(k, -1, false)
		func() {
			defer func() { recover() }() // the dying process may do anything
			ch.applyReal(op)
		}()
		c.Disarm()
		if !c.Frozen() {
			continue // the call took another path this time (no k-th write): nothing to judge
		}
		o.Count("fault:crash_before_write", 1)
		// restart
		db2 := kvgraph.NewKVGraph(c.Open())
		got := observeReal(db2, h.u, h.workDir)
		for kk := range h.masked {
			got.dropKind(kk)
		}
		kb, _, _ := wantB.diff(got)
		ka, wv, gv := wantA.diff(got)
		if op.Op == "delGraph" && ka == "" {
			// the graph is gone: re-creating it must give an empty graph, not
			// what an interrupted delete left behind
			db3 := kvgraph.NewKVGraph(c.Clone().Open()) // a probe on a copy: the recovered store itself goes on below
			if err := db3.AddGraph(op.G); err == nil {
				m2 := after.Clone()
				m2.Graphs[op.G] = model.NewG()
				w2 := observeModel(m2, h.u)
				g2 := observeReal(db3, h.u, h.workDir)
				for kk := range h.masked {
					if kk == "vertex-labels" || kk == "edge-labels" {
						// the recorded finding is about labels going stale inside a
						// living graph; a graph that has just been created lists no
						// labels at all, whatever was interrupted before
						if len(m2.Graphs) == 1 {
							continue
						}
					}
					w2.dropKind(kk)
					g2.dropKind(kk)
				}
				if k2, wv2, gv2 := w2.diff(g2); k2 != "" {
					return &Violation{Class: "C04/crash/deleted-graph-resurrected", Signature: "C04/crash/deleted-graph-resurrected/obs=" + obsKind(k2),
						Detail: fmt.Sprintf("step %d %s, crash before top-level write %d of %d (%s): the graph was gone after reopening, but re-creating it shows leftovers: observable %s expected %s got %s", i, opString(op), k, writes, strings.Join(wlog, " ; "), k2, wv2, gv2)}
				}
				o.Count("recreate_after_interrupted_delete_checked", 1)
			}
		}
		if kb == "" || ka == "" {
			matched := before
			if kb == "" {
				o.Count("crash_outcome:call_absent", 1)
			} else {
				o.Count("crash_outcome:call_complete", 1)
				matched = after
			}
			// the recovered server must go on behaving like one that never
			// stopped: the rest of the history (a few steps) and a probe that
			// writes new, labelled elements are judged against the abstract
			// graph the recovery matched
			what := fmt.Sprintf("step %d %s, crash before top-level write %d of %d (%s), recovered as if the call had %s", i, opString(op), k, writes, strings.Join(wlog, " ; "), map[bool]string{true: "not happened", false: "completed"}[kb == ""])
			if v := afterRecovery(c, db2, matched, h, rest, what, o, x); v != nil {
				return v
			}
			continue
		}
		what := fmt.Sprintf("step %d %s, crash before top-level write %d of %d (%s)", i, opString(op), k, writes, strings.Join(wlog, " ; "))
		if op.Op == "delGraph" {
			// multi-write by design: accept a partial, consistent state
			if msg := rawConsistency(c); msg != "" {
				return &Violation{Class: "C04/crash/inconsistent", Signature: fmt.Sprintf("C04/crash/inconsistent/after=%s", ex.shape), Detail: what + ": after reopening, " + msg}
			}
			if d := otherGraphsDiff(wantB, got, op.G); d != "" {
				return &Violation{Class: "C04/crash/other-graph-changed", Signature: "C04/crash/other-graph-changed/after=" + ex.shape, Detail: what + ": " + d}
			}
			o.Count("crash_outcome:partial_consistent", 1)
			continue
		}
		msg := rawConsistency(c)
		kind := "neither-before-nor-after"
		if msg != "" {
			kind = "inconsistent"
		}
		return &Violation{Class: "C04/crash/" + kind, Signature: fmt.Sprintf("C04/crash/%s/after=%s", kind, ex.shape),
			Detail: fmt.Sprintf("%s: after reopening, observable %s is neither as before the call nor as after it\n  after-state expects: %s\n  got:                 %s\n  raw-key check: %s", what, ka, wv, gv, msg)}
	}
	return nil
}

// afterRecovery continues on a recovered store.
func afterRecovery(c *simkv.Disk, db gdbi.GraphDB, matched *model.Store, h *histRunner, rest []gen.HOp, what string, o *Outcome, x *Exec) *Violation {
	v, _ := afterRecoveryM(c, db, matched, h, rest, what, o, x)
	return v
}

// afterRecoveryM also returns the abstract state reached (nil when the
// continuation ended early at a recorded finding or a violation).
func afterRecoveryM(c *simkv.Disk, db gdbi.GraphDB, matched *model.Store, h *histRunner, rest []gen.HOp, what string, o *Outcome, x *Exec) (*Violation, *model.Store) {
	u := h.u
	u.VIDs = append(append([]string{}, u.VIDs...), "pv", "pw")
	u.EIDs = append(append([]string{}, u.EIDs...), "pe")
	rh := &histRunner{disk: c, db: db, m: matched.Clone(), u: u, seenTS: map[string]map[string]bool{}, workDir: h.workDir, masked: map[string]bool{}}
	for k := range h.masked {
		rh.masked[k] = true
	}
	var ops []gen.HOp
	for _, op := range rest {
		if len(ops) >= 3 {
			break
		}
		if op.Op == "reopen" {
			continue
		}
		ops = append(ops, op)
	}
	for _, g := range matched.GraphNames() {
		ops = append(ops,
			gen.HOp{Op: "addV", G: g, TickUs: 7, V: []*model.Vertex{{ID: "pv", Label: gen.VLabels[0]}}},
			gen.HOp{Op: "batch", G: g, TickUs: 7, V: []*model.Vertex{{ID: "pw", Label: gen.VLabels[1%len(gen.VLabels)]}}, E: []*model.Edge{{ID: "pe", Label: gen.ELabels[0], From: "pv", To: "pw"}}},
		)
	}
	for j, op := range ops {
		v := safeStep(rh, "C04", j, op)
		if v == nil {
			continue
		}
		if x.IsKnown("C03", strings.Replace(v.Signature, "C04/", "C03/", 1)) || x.IsKnown("C04", v.Signature) {
			o.Count("recovery_continuation_ended_at_known", 1)
			return nil, nil
		}
		o.Count("recovery_continuations_failed", 1)
		return &Violation{Class: "C04/crash/after-recovery", Signature: "C04/crash/after-recovery/" + strings.TrimPrefix(v.Signature, "C04/"), Detail: what + "; then " + v.Detail}, nil
	}
	o.Count("recovery_continuations_checked", 1)
	return nil, rh.m
}

func otherGraphsDiff(want, got *obs, g string) string {
	for _, k := range want.keys {
		if strings.HasPrefix(k, g+"/") || k == "graphs" {
			continue
		}
		if want.vals[k] != got.vals[k] {
			return fmt.Sprintf("observable %s of another graph changed: %s -> %s", k, want.vals[k], got.vals[k])
		}
	}
	return ""
}

var _ = model.Canon
