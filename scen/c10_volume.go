//go:build verif

package scen

import (
	"bytes"
	"fmt"
	"os"
	"path/filepath"

	"github.com/bmeg/grip/kvi"
)

// C10, volume — the same ordered map for key counts beyond every block,
// batch or transaction size a driver uses internally (Badger deletes a prefix
// in blocks of 10 000 keys, Pebble/LevelDB batch, Bolt has one transaction):
// N keys under one prefix and M under a neighbouring one are written in one
// bulk write; DeletePrefix of the first must remove exactly those N, also as
// seen after a clean reopen; a forward scan must see the remaining keys in
// order, once each.

type c10vW struct {
	N      int    `json:"n"`
	M      int    `json:"m"`
	Driver string `json:"driver"` // "" = all
}

func init() {
	Register(&Scenario{
		Name: "kv-volume", Prop: "C10", Every: 160,
		Gen: func(r *Rng, tier string, seed uint64) interface{} {
			w := &c10vW{N: []int{10001, 12000}[r.Intn(2)], M: 1 + r.Intn(300)}
			if tier == "thorough" {
				w.N = []int{9999, 10000, 10001, 12000, 20001, 31000, 120000}[r.Intn(7)] // 120 000 sets: beyond Badger's transaction size
			}
			return w
		},
		New:  func() interface{} { return &c10vW{} },
		Exec: func(w interface{}, x *Exec) *Outcome { return execC10v(w.(*c10vW), x) },
		Shrink: func(w interface{}) []interface{} {
			v := w.(*c10vW)
			var out []interface{}
			if v.Driver == "" {
				for _, d := range c10Drivers {
					out = append(out, &c10vW{N: v.N, M: v.M, Driver: d})
				}
			}
			if v.M > 1 {
				out = append(out, &c10vW{N: v.N, M: 1, Driver: v.Driver})
			}
			return out
		},
	})
}

func execC10v(w *c10vW, x *Exec) *Outcome {
	o := &Outcome{}
	o.Fingerprint = hash64([]byte(fmt.Sprintf("c10v/%d/%d/%s", w.N, w.M, w.Driver)))
	o.NonTrivial = true
	o.Count("mode:kv-volume", 1)
	base := filepath.Join(x.WorkDir, "c10v")
	os.RemoveAll(base)
	os.MkdirAll(base, 0755)
	defer os.RemoveAll(base)
	pk := func(i int) []byte { return []byte(fmt.Sprintf("p|%07d", i)) }
	qk := func(i int) []byte { return []byte(fmt.Sprintf("q|%07d", i)) }
	for _, drv := range c10Drivers {
		if w.Driver != "" && w.Driver != drv {
			continue
		}
		dir := filepath.Join(base, drv)
		fail := func(kind, detail string) *Outcome {
			o.Violation = &Violation{Class: "C10/" + drv + "/volume", Signature: "C10/" + drv + "/volume/" + kind, Detail: fmt.Sprintf("driver %s, %d keys under p| and %d under q|: %s", drv, w.N, w.M, detail)}
			return o
		}
		var pmsg string
		var res *Outcome
		func() {
			defer func() {
				if r := recover(); r != nil {
					st := make([]byte, 3000)
					st = st[:runtimeStack(st)]
					pmsg = fmt.Sprintf("panic: %v\n%s", r, st)
				}
			}()
			kv, err := kvi.NewKVInterface(drv, dir, nil)
			if err != nil {
				o.Inconclusive = "infra:open " + drv + ": " + err.Error()
				return
			}
			defer func() { kv.Close() }()
			if err := kv.BulkWrite(func(tx kvi.KVBulkWrite) error {
				for i := 0; i < w.N; i++ {
					if err := tx.Set(pk(i), []byte("x")); err != nil {
						return err
					}
				}
				for i := 0; i < w.M; i++ {
					if err := tx.Set(qk(i), []byte("y")); err != nil {
						return err
					}
				}
				return nil
			}); err != nil {
				res = fail("bulk-write-fails", err.Error())
				return
			}
			count := func(prefix []byte) (n int, ordered bool) {
				ordered = true
				var last []byte
				kv.View(func(it kvi.KVIterator) error {
					for it.Seek(prefix); it.Valid() && bytes.HasPrefix(it.Key(), prefix); it.Next() {
						k := append([]byte{}, it.Key()...)
						if last != nil && bytes.Compare(last, k) >= 0 {
							ordered = false
						}
						last = k
						n++
					}
					return nil
				})
				return
			}
			if n, ord := count([]byte("p|")); n != w.N || !ord {
				res = fail("scan-after-bulk-write", fmt.Sprintf("a forward scan of p| sees %d keys (ordered: %v), %d were written", n, ord, w.N))
				return
			}
			if err := kv.DeletePrefix([]byte("p|")); err != nil {
				res = fail("delete-prefix-fails", err.Error())
				return
			}
			check := func(when string) bool {
				if n, _ := count([]byte("p|")); n != 0 {
					res = fail("delete-prefix-leaves-keys/"+when, fmt.Sprintf("%d of %d keys survive DeletePrefix(p|) (%s)", n, w.N, when))
					return false
				}
				if kv.HasKey(pk(w.N - 1)) {
					res = fail("delete-prefix-leaves-keys/"+when, fmt.Sprintf("the last key under p| survives DeletePrefix (%s)", when))
					return false
				}
				if n, ord := count([]byte("q|")); n != w.M || !ord {
					res = fail("delete-prefix-removes-neighbours/"+when, fmt.Sprintf("%d of %d keys under q| are left (ordered: %v) after DeletePrefix(p|) (%s)", n, w.M, ord, when))
					return false
				}
				return true
			}
			if !check("same handle") {
				return
			}
			kv.Close()
			kv, err = kvi.NewKVInterface(drv, dir, nil)
			if err != nil {
				res = fail("reopen-fails", err.Error())
				return
			}
			o.Count("fault:clean_reopen", 1)
			check("after reopen")
		}()
		o.Count("volume_runs:"+drv, 1)
		if pmsg != "" {
			o.Violation = &Violation{Class: "C10/" + drv + "/panic", Signature: "C10/" + drv + "/volume/panic/" + panicSite("x\n"+pmsg), Detail: drv + ": " + pmsg}
			return o
		}
		if res != nil || o.Inconclusive != "" {
			return o
		}
	}
	return o
}
