package scen

import (
	"fmt"
	"strings"

	"github.com/bmeg/grip/gripql"
	"verifsim/gen"
	"verifsim/model"
	"verifsim/simrt"
)

// C01 — traversal results equal the documented step-by-step semantics.
// The answer is computed by 2-4 goroutines per step over bounded buffers, with
// limit/range cancellation racing the producers: the multiset must not depend
// on the schedule. Oracle: refql (exact multiset; bound arithmetic + sub-
// multiset for limit/skip/range). Ill-typed programs must be rejected by
// Compile before any goroutine is started.

type c01W struct {
	Run   RunCfg           `json:"run"`
	Graph *model.GraphData `json:"graph"`
	Prog  []string         `json:"prog"`
	Name  string           `json:"name,omitempty"`
	Kind  string           `json:"kind"` // enum | random | unwind
	Enum  int              `json:"enum_index,omitempty"`
}

func init() {
	Register(&Scenario{
		Name: "enum", Prop: "C01", Weight: 2,
		Gen:    func(r *Rng, tier string, seed uint64) interface{} { return genC01(r, tier, seed, "enum") },
		New:    func() interface{} { return &c01W{} },
		Exec:   func(w interface{}, x *Exec) *Outcome { return execC01(w.(*c01W), x) },
		Shrink: func(w interface{}) []interface{} { return shrinkC01(w.(*c01W)) },
		Real:   []string{"engine/core compiler+optimizer+processors", "engine/pipeline (Run, Convert)", "engine/inspect", "kvgraph", "kvindex", "jsonpath", "engine/logic/match"},
		Stub:   []string{"storage engine (simkv behind kvi.KVInterface)"},
	})
	Register(&Scenario{
		Name: "random", Prop: "C01", Weight: 3,
		Gen:    func(r *Rng, tier string, seed uint64) interface{} { return genC01(r, tier, seed, "random") },
		New:    func() interface{} { return &c01W{} },
		Exec:   func(w interface{}, x *Exec) *Outcome { return execC01(w.(*c01W), x) },
		Shrink: func(w interface{}) []interface{} { return shrinkC01(w.(*c01W)) },
	})
}

// enumGraph: ids v0..v3 / e0..e3 are fixed so that the enumerated alphabet's
// id arguments hit; the rest is random.
func c01Graph(r *Rng) *model.GraphData {
	g := gen.Graph(r, gen.GraphOpts{MaxV: 12, MaxE: 20})
	return g
}

func genC01(r *Rng, tier string, seed uint64, kind string) *c01W {
	w := &c01W{Run: GenRunCfg(r, []int{1, 1, 10, 100, 1000}), Kind: kind}
	w.Graph = c01Graph(r)
	var prog []*gripql.GraphStatement
	switch kind {
	case "enum":
		// consecutive seeds walk the bounded space round-robin
		w.Enum = int(seed % uint64(gen.EnumSize()))
		prog, w.Name = gen.EnumProgram(w.Enum)
	default:
		if r.Chance(12) {
			w.Kind = "unwind"
			// purpose-built data: every vertex carries a non-empty list "t", or
			// (nested) a map "n" holding the list "t" next to a scalar
			field := "t"
			if r.Chance(40) {
				field = "n.t"
			}
			for _, v := range w.Graph.V {
				if v.Data == nil {
					v.Data = map[string]interface{}{}
				}
				n := 1 + r.Intn(3)
				l := []interface{}{}
				for i := 0; i < n; i++ {
					l = append(l, []string{"p", "q", "r"}[r.Intn(3)])
				}
				if field == "t" {
					v.Data["t"] = l
				} else {
					v.Data["n"] = map[string]interface{}{"t": l, "k": "c"}
				}
			}
			prog = []*gripql.GraphStatement{gen.V()}
			if r.Chance(50) {
				prog = append(prog, gen.HasLabel("A", "B"))
			}
			prog = append(prog, gen.Unwind(field))
			switch r.Intn(4) {
			case 0:
				prog = append(prog, gen.Has(gripql.Eq(field, "p")))
			case 1:
				prog = append(prog, gen.Count())
			case 2:
				prog = append(prog, gen.Render(map[string]interface{}{"id": "_gid", "t": field}))
			}
		} else {
			prog = gen.Program(r, w.Graph, gen.ProgOpts{MaxLen: 9, Oracle: true, IndexBias: r.Chance(40)})
		}
	}
	w.Prog = gen.StmtsJSON(prog)
	return w
}

func shrinkC01(w *c01W) []interface{} {
	var out []interface{}
	cp := func() *c01W { n := &c01W{}; jsonClone(w, n); n.Kind = "random"; n.Name = ""; return n }
	for i := len(w.Prog) - 1; i >= 1; i-- {
		n := cp()
		n.Prog = append(append([]string{}, w.Prog[:i]...), w.Prog[i+1:]...)
		out = append(out, n)
	}
	if len(w.Graph.E) > 1 {
		n := cp()
		n.Graph.E = n.Graph.E[:len(n.Graph.E)/2]
		out = append(out, n)
	}
	for i := len(w.Graph.E) - 1; i >= 0; i-- {
		n := cp()
		n.Graph.E = append(n.Graph.E[:i], n.Graph.E[i+1:]...)
		out = append(out, n)
	}
	for i := len(w.Graph.V) - 1; i >= 0; i-- {
		n := cp()
		n.Graph.V = append(n.Graph.V[:i], n.Graph.V[i+1:]...)
		out = append(out, n)
	}
	for i, v := range w.Graph.V {
		if len(v.Data) > 0 {
			n := cp()
			n.Graph.V[i].Data = nil
			out = append(out, n)
		}
	}
	for i, e := range w.Graph.E {
		if len(e.Data) > 0 {
			n := cp()
			n.Graph.E[i].Data = nil
			out = append(out, n)
		}
	}
	if w.Run.Policy != 0 || w.Run.CapDiv != 1 {
		n := cp()
		n.Run.Policy, n.Run.StarveIdx, n.Run.StarveSite, n.Run.CapDiv = 0, 0, "", 1
		out = append(out, n)
	}
	return out
}

func execC01(w *c01W, x *Exec) *Outcome {
	o := &Outcome{}
	stmts, err := gen.StmtsFromJSON(w.Prog)
	if err != nil {
		o.Inconclusive = "infra:bad program json: " + err.Error()
		return o
	}
	verdict := gen.TypeCheckExt(stmts)
	o.Count("typing:"+verdict, 1)
	o.Count("policy:"+simrt.Policy(w.Run.Policy).String(), 1)
	if w.Run.CapDiv > 1 {
		o.Count("fault:buffer_scaling", 1)
	}
	names := stmtNames(stmts)
	cfg := w.Run.Sim()
	if cfg.MaxSteps == 0 {
		cfg.MaxSteps = 1500000
	}
	o.Fingerprint = hash64([]byte(model.Canon(w.Graph) + strings.Join(w.Prog, ";")))
	switch verdict {
	case gen.Unspecified, gen.OutsideModel:
		o.Inconclusive = "" // not judged; counted under typing:*
		return o
	case gen.IllTyped:
		tr := runTraversal(x, cfg, w.Graph, stmts, travOpts{CancelAfter: -1})
		o.NonTrivial = true
		if tr.Bubble.Infra != "" {
			o.Inconclusive = "infra:" + tr.Bubble.Infra
			return o
		}
		if tr.CompileErr == "" {
			o.Violation = &Violation{Class: "C01/ill-typed-accepted", Signature: "C01/ill-typed-accepted/" + illKind(stmts), Detail: fmt.Sprintf("ill-typed traversal %s was compiled and run (%d rows, verdict %s, panics %v)", names, len(tr.Rows), tr.Bubble.Verdict, tr.Bubble.Panics)}
		} else if tr.SpawnedBeforeCompileErr > 0 {
			o.Violation = &Violation{Signature: "C01/ill-typed-started-goroutines", Detail: fmt.Sprintf("%s: compile error %q but %d goroutines had been started", names, tr.CompileErr, tr.SpawnedBeforeCompileErr)}
		}
		return o
	}
	g := model.FromData(w.Graph)
	spec, _ := model.Eval(g, stmts)
	if spec.Err != "" {
		o.Inconclusive = "reference: " + spec.Err
		return o
	}
	tr := runTraversal(x, cfg, w.Graph, stmts, travOpts{CancelAfter: -1})
	if tr.Bubble.Verdict == simrt.Budget && simrt.Policy(w.Run.Policy) != simrt.PolRR {
		cfg.Policy = simrt.PolRR
		tr = runTraversal(x, cfg, w.Graph, stmts, travOpts{CancelAfter: -1})
	}
	o.Fingerprint = hash64([]byte(fmt.Sprintf("%s%s/%d/%x", model.Canon(w.Graph), strings.Join(w.Prog, ";"), w.Run.CapDiv, x.Stats.TraceHash)))
	o.NonTrivial = len(spec.Rows) > 0 || len(spec.Superset) > 0
	switch {
	case tr.Bubble.Infra != "":
		o.Inconclusive = "infra:" + tr.Bubble.Infra
	case tr.LoadErr != "":
		o.Inconclusive = "infra:load: " + tr.LoadErr
	case tr.CompileErr != "":
		o.Violation = &Violation{Class: "C01/well-typed-rejected", Signature: "C01/well-typed-rejected/" + names, Detail: tr.CompileErr}
	case len(tr.Bubble.Panics) > 0:
		o.Violation = &Violation{Signature: "C01/panic/" + panicSite(tr.Bubble.Panics[0]), Detail: names + ": " + tr.Bubble.Panics[0]}
	case tr.Bubble.Verdict == simrt.Budget:
		o.Inconclusive = "step budget"
	case tr.Bubble.Verdict != simrt.Done || !tr.Closed:
		o.Violation = &Violation{Class: "C01/never-finishes", Signature: "C01/never-finishes/" + names, Detail: fmt.Sprintf("verdict %s, closed %v, left %v", tr.Bubble.Verdict, tr.Closed, tr.Bubble.LiveSites)}
	default:
		if d := spec.Check(tr.Rows); d != "" {
			kind := "rows"
			if spec.Exact {
				kind = seqDiffKind(spec.Rows, tr.Rows)
			} else {
				kind = "truncation-or-distinct"
			}
			o.Violation = &Violation{Class: "C01/result/" + kind, Signature: "C01/result/" + kind + "/" + names, Detail: names + " on " + fmt.Sprintf("%d vertices/%d edges", len(w.Graph.V), len(w.Graph.E)) + ": " + d}
		}
	}
	return o
}

func illKind(stmts []*gripql.GraphStatement) string {
	// name the first offending statement after its predecessor
	for n := 2; n <= len(stmts); n++ {
		if gen.TypeCheck(stmts[:n]) == gen.IllTyped {
			return stmtNames(stmts[n-2 : n])
		}
	}
	if gen.TypeCheck(stmts[:1]) == gen.IllTyped {
		return stmtNames(stmts[:1])
	}
	return stmtNames(stmts)
}
