//go:build verif

package scen

import (
	"bytes"
	"fmt"
	"os"
	"path/filepath"
	"sync"
	"sync/atomic"

	"github.com/bmeg/grip/kvi"
)

// C10, concurrent bulk writes — several callers (real goroutines: the engines
// are real and not under the scheduler) start BulkWrite on one store at the
// same moment; one of them makes its callback fail after its sets. Whatever the
// driver does internally (merged transactions, batches, retries), every
// callback runs exactly once, every key of a successful call is stored with
// the value that call set, and an Update that fails stores nothing. The
// schedule is the Go runtime's, so this part is a repeated stress (25 rounds
// per driver), not a seeded exploration: it can miss, it cannot raise a false
// alarm.

type c10cW struct {
	Callers int `json:"callers"`
	Keys    int `json:"keys"`
	Rounds  int `json:"rounds"`
}

func init() {
	Register(&Scenario{
		Name: "kv-concurrent-bulk", Prop: "C10", Every: 96, Offset: 1, // the first case of worker 1, then every 96th seed
		Gen: func(r *Rng, tier string, seed uint64) interface{} {
			return &c10cW{Callers: 2 + r.Intn(5), Keys: 1 + r.Intn(30), Rounds: 25}
		},
		New:  func() interface{} { return &c10cW{} },
		Exec: func(w interface{}, x *Exec) *Outcome { return execC10c(w.(*c10cW), x) },
	})
}

func execC10c(w *c10cW, x *Exec) *Outcome {
	o := &Outcome{}
	o.Fingerprint = hash64([]byte(fmt.Sprintf("c10c/%d/%d", w.Callers, w.Keys)))
	o.NonTrivial = true
	o.Count("mode:kv-concurrent-bulk", 1)
	base := filepath.Join(x.WorkDir, "c10c")
	os.RemoveAll(base)
	os.MkdirAll(base, 0755)
	defer os.RemoveAll(base)
	for _, drv := range c10Drivers {
		kv, err := kvi.NewKVInterface(drv, filepath.Join(base, drv), nil)
		if err != nil {
			o.Inconclusive = "infra:open " + drv + ": " + err.Error()
			return o
		}
		fail := func(kind, detail string) *Outcome {
			kv.Close()
			o.Violation = &Violation{Class: "C10/" + drv + "/concurrent-bulk", Signature: "C10/" + drv + "/concurrent-bulk/" + kind, Detail: fmt.Sprintf("driver %s, %d concurrent BulkWrite calls of %d keys: %s", drv, w.Callers, w.Keys, detail)}
			return o
		}
		for round := 0; round < w.Rounds; round++ {
			failing := round % w.Callers
			ran := make([]int32, w.Callers)
			errs := make([]error, w.Callers)
			start := make(chan struct{})
			var wg sync.WaitGroup
			for c := 0; c < w.Callers; c++ {
				wg.Add(1)
				go func(c int) {
					defer wg.Done()
					<-start
					errs[c] = kv.BulkWrite(func(tx kvi.KVBulkWrite) error {
						atomic.AddInt32(&ran[c], 1)
						for k := 0; k < w.Keys; k++ {
							if err := tx.Set([]byte(fmt.Sprintf("r%03d|c%d|k%03d", round, c, k)), []byte(fmt.Sprintf("v%d-%d", round, c))); err != nil {
								return err
							}
						}
						if c == failing {
							return fmt.Errorf("caller %d gives up", c)
						}
						return nil
					})
				}(c)
			}
			close(start)
			wg.Wait()
			for c := 0; c < w.Callers; c++ {
				if n := atomic.LoadInt32(&ran[c]); n != 1 {
					return fail("callback-ran-more-than-once", fmt.Sprintf("round %d: the callback of caller %d ran %d times", round, c, n))
				}
				if c == failing {
					continue // whether a failed bulk write leaves its sets behind differs between the drivers by design
				}
				if errs[c] != nil {
					return fail("successful-call-reports-error", fmt.Sprintf("round %d: caller %d made no mistake but got %v", round, c, errs[c]))
				}
				for k := 0; k < w.Keys; k++ {
					key := []byte(fmt.Sprintf("r%03d|c%d|k%03d", round, c, k))
					want := []byte(fmt.Sprintf("v%d-%d", round, c))
					got, err := kv.Get(key)
					if err != nil || !bytes.Equal(got, want) {
						return fail("acknowledged-key-missing", fmt.Sprintf("round %d: BulkWrite of caller %d returned nil but key %s holds %q (err %v), %q was set (caller %d failed in the same round)", round, c, key, got, err, want, failing))
					}
				}
			}
		}
		o.Count("concurrent_bulk_rounds:"+drv, w.Rounds)
		kv.Close()
	}
	return o
}
