package scen

import (
	"fmt"
	"strings"

	"github.com/bmeg/grip/gripql"
	"verifsim/gen"
	"verifsim/model"
	"verifsim/simrt"
)

// C07 — traversals terminate for any data volume and stop when cancelled.
// Graph sizes are chosen relative to the (scaled) buffer capacities; the
// oracle is liveness only: the result stream closes, every goroutine of the
// run exits, temporary stores are closed and their directories removed.
// A deadlock found with scaled capacities is confirmed at the production
// constants (workload scaled up by the same factor) before it is reported.

type c07W struct {
	Run         RunCfg           `json:"run"`
	Shape       string           `json:"shape"` // ring | star-out | star-in | bipartite | chain | explicit
	Size        int              `json:"size"`
	Graph       *model.GraphData `json:"graph,omitempty"` // shape == explicit
	Prog        []string         `json:"prog"`            // protojson statements
	CancelAfter int              `json:"cancel_after"`    // -1: never
	DeadlineUs  int              `json:"deadline_us,omitempty"` // > 0 with cancel_after: the context expires by deadline instead of being cancelled
	StopReading bool             `json:"stop_reading,omitempty"`
	WriteAfter  int              `json:"write_after,omitempty"` // > 0: the reading client deletes an absent vertex after that many rows
	Confirmed   bool             `json:"confirmed_at_production_constants,omitempty"`
}

func init() {
	Register(&Scenario{
		Name: "termination", Prop: "C07",
		Gen:    func(r *Rng, tier string, seed uint64) interface{} { return genC07(r, tier) },
		New:    func() interface{} { return &c07W{} },
		Exec:   func(w interface{}, x *Exec) *Outcome { return execC07(w.(*c07W), x) },
		Shrink: func(w interface{}) []interface{} { return shrinkC07(w.(*c07W)) },
		Real:   []string{"engine/core compiler+optimizer+processors", "engine/pipeline", "engine/manager", "kvgraph", "kvindex", "jsonpath", "engine/logic"},
		Stub:   []string{"storage engine (simkv behind kvi.KVInterface)", "temp store of distinct() (simkv via engine seam)"},
	})
}

func shapeGraph(shape string, n int) *model.GraphData {
	g := &model.GraphData{}
	vid := func(i int) string { return fmt.Sprintf("v%d", i) }
	addV := func(i int) {
		g.V = append(g.V, &model.Vertex{ID: vid(i), Label: gen.VLabels[i%3], Data: map[string]interface{}{"n": float64(i % 7), "s": []string{"x", "y", "z"}[i%3]}})
	}
	addE := func(a, b int) {
		g.E = append(g.E, &model.Edge{ID: fmt.Sprintf("e%d", len(g.E)), Label: gen.ELabels[len(g.E)%3], From: vid(a), To: vid(b)})
	}
	switch shape {
	case "ring":
		for i := 0; i < n; i++ {
			addV(i)
		}
		for i := 0; i < n; i++ {
			addE(i, (i+1)%n)
		}
	case "chain":
		for i := 0; i < n; i++ {
			addV(i)
		}
		for i := 0; i+1 < n; i++ {
			addE(i, i+1)
		}
	case "star-out":
		for i := 0; i <= n; i++ {
			addV(i)
		}
		for i := 1; i <= n; i++ {
			addE(0, i)
		}
	case "star-in":
		for i := 0; i <= n; i++ {
			addV(i)
		}
		for i := 1; i <= n; i++ {
			addE(i, 0)
		}
	case "bipartite":
		a := 2
		if n > 20 {
			a = 4
		}
		for i := 0; i < a+n; i++ {
			addV(i)
		}
		for i := 0; i < a; i++ {
			for j := 0; j < n; j++ {
				addE(i, a+j)
			}
		}
	}
	return g
}

// scaleGraph returns k disjoint copies of gd.
func scaleGraph(gd *model.GraphData, k int) *model.GraphData {
	out := &model.GraphData{}
	for c := 0; c < k; c++ {
		suf := fmt.Sprintf("_%d", c)
		if c == 0 {
			suf = ""
		}
		for _, v := range gd.V {
			n := *v
			n.ID += suf
			out.V = append(out.V, &n)
		}
		for _, e := range gd.E {
			n := *e
			n.ID, n.From, n.To = n.ID+suf, n.From+suf, n.To+suf
			out.E = append(out.E, &n)
		}
	}
	return out
}

var c07Templates = [][]*gripql.GraphStatement{
	{gen.V(), gen.Both()},
	{gen.V(), gen.BothE()},
	{gen.V(), gen.Both(), gen.Both()},
	{gen.V(), gen.Out(), gen.Both()},
	{gen.E(), gen.Both()},
	{gen.V(), gen.Both(), gen.Limit(3)},
	{gen.V(), gen.Limit(2), gen.Both()},
	{gen.V(), gen.Both(), gen.Count()},
	{gen.V(), gen.HasLabel("A"), gen.Both()},
	{gen.V(), gen.Both(), gen.Distinct()},
	{gen.V(), gen.Out(), gen.Out()},
	{gen.V(), gen.OutE(), gen.Out(), gen.In()},
	{gen.V(), gen.Out(), gen.Limit(1)},
	{gen.V(), gen.Out(), gen.Range(1, 3)},
	{gen.V(), gen.Out(), gen.Distinct("s")},
	{gen.V(), gen.As("a"), gen.Out(), gen.Select("a")},
	{gen.V(), gen.HasLabel("A", "B"), gen.Out(), gen.Count()},
	{gen.V(), gen.Aggregate(&gripql.Aggregate{Name: "t", Aggregation: &gripql.Aggregate_Term{Term: &gripql.TermAggregation{Field: "s"}}}, &gripql.Aggregate{Name: "c", Aggregation: &gripql.Aggregate_Count{Count: &gripql.CountAggregation{}}})},
	{gen.V(), gen.Out(), gen.Aggregate(&gripql.Aggregate{Name: "h", Aggregation: &gripql.Aggregate_Histogram{Histogram: &gripql.HistogramAggregation{Field: "n", Interval: 2}}})},
	{gen.V(), gen.Out(), gen.Render(map[string]interface{}{"id": "_gid"})},
	{gen.E(), gen.Out(), gen.OutE()},
	// two steps with temporary storage in one traversal
	{gen.V(), gen.Distinct(), gen.Out(), gen.Distinct()},
	{gen.V(), gen.Out(), gen.Distinct("s"), gen.Distinct()},
	// deep pipelines: more concurrently live lookup steps than any small pool of
	// per-step resources (18, 24 and 40 hops)
	c07Deep(18), c07Deep(24), c07Deep(40),
}

func c07Deep(hops int) []*gripql.GraphStatement {
	p := []*gripql.GraphStatement{gen.V()}
	for i := 0; i < hops; i++ {
		p = append(p, gen.Out())
	}
	return p
}

func genC07(r *Rng, tier string) *c07W {
	w := &c07W{Run: GenRunCfg(r, []int{1000, 500, 200, 100, 50, 1}), CancelAfter: -1}
	// emphasis on slow consumers / slow stages
	if r.Chance(35) {
		w.Run.Policy = int(simrt.PolStarve)
		if r.Chance(50) {
			w.Run.StarveSite = "client"
		} else {
			w.Run.StarveSite = ""
			w.Run.StarveIdx = r.Intn(16)
		}
	}
	caps := []int{5000, 1000, 100}
	var cands []int
	for _, c := range caps {
		k := c / maxi(1, w.Run.CapDiv)
		if k < 1 {
			k = 1
		}
		cands = append(cands, k-1, k, k+1, 2*k+1, 3*k+2)
	}
	cands = append(cands, 0, 1, 2, 12)
	w.Size = cands[r.Intn(len(cands))]
	lim := 60
	if tier == "thorough" {
		lim = 300
	}
	if w.Size > lim {
		w.Size = lim
	}
	if w.Size < 0 {
		w.Size = 0
	}
	var prog []*gripql.GraphStatement
	if r.Chance(25) {
		w.Shape = "explicit"
		w.Graph = gen.Graph(r, gen.GraphOpts{MaxV: 10, MaxE: 20})
		prog = gen.Program(r, w.Graph, gen.ProgOpts{MaxLen: 6})
	} else {
		w.Shape = []string{"ring", "star-out", "star-in", "bipartite", "chain"}[r.Intn(5)]
		if r.Chance(60) {
			prog = c07Templates[r.Intn(len(c07Templates))]
		} else {
			prog = gen.Program(r, shapeGraph(w.Shape, mini(w.Size, 8)), gen.ProgOpts{MaxLen: 5})
		}
	}
	w.Prog = gen.StmtsJSON(prog)
	if r.Chance(30) {
		w.CancelAfter = r.Intn(6)
		if r.Chance(35) {
			w.DeadlineUs = []int{200, 5000, 2000000}[r.Intn(3)]
		}
	} else if r.Chance(15) {
		w.WriteAfter = 1 + r.Intn(4)
	}
	return w
}

func mini(a, b int) int {
	if a < b {
		return a
	}
	return b
}

func (w *c07W) graph(scale int) *model.GraphData {
	if w.Shape == "explicit" {
		if scale > 1 {
			return scaleGraph(w.Graph, scale)
		}
		return w.Graph
	}
	return shapeGraph(w.Shape, w.Size*scale)
}

func shrinkC07(w *c07W) []interface{} {
	var out []interface{}
	cp := func() *c07W { n := &c07W{}; jsonClone(w, n); return n }
	if w.Shape != "explicit" {
		for _, k := range []int{w.Size / 2, w.Size - 1} {
			if k >= 0 && k < w.Size {
				n := cp()
				n.Size = k
				out = append(out, n)
			}
		}
	} else if w.Graph != nil {
		if len(w.Graph.E) > 0 {
			n := cp()
			n.Graph.E = n.Graph.E[:len(n.Graph.E)/2]
			out = append(out, n)
			n = cp()
			n.Graph.E = n.Graph.E[:len(n.Graph.E)-1]
			out = append(out, n)
		}
		if len(w.Graph.V) > 0 {
			n := cp()
			n.Graph.V = n.Graph.V[:len(n.Graph.V)-1]
			out = append(out, n)
		}
	}
	for i := len(w.Prog) - 1; i >= 1; i-- { // drop a statement (keep the start); ill-typed candidates simply do not reproduce
		n := cp()
		n.Prog = append(append([]string{}, w.Prog[:i]...), w.Prog[i+1:]...)
		out = append(out, n)
	}
	if w.CancelAfter >= 0 {
		n := cp()
		n.CancelAfter = -1
		out = append(out, n)
	}
	if w.WriteAfter > 1 {
		n := cp()
		n.WriteAfter = 1
		out = append(out, n)
	}
	if w.Run.Policy != 0 {
		n := cp()
		n.Run.Policy, n.Run.StarveSite, n.Run.StarveIdx = 0, "", 0
		out = append(out, n)
	}
	return out
}

func execC07(w *c07W, x *Exec) *Outcome {
	o := &Outcome{}
	stmts, err := gen.StmtsFromJSON(w.Prog)
	if err != nil {
		o.Inconclusive = "infra:bad program json: " + err.Error()
		return o
	}
	o.Count("policy:"+simrt.Policy(w.Run.Policy).String(), 1)
	o.Count("shape:"+w.Shape, 1)
	if w.Run.CapDiv > 1 {
		o.Count("fault:buffer_scaling", 1)
	}
	if w.CancelAfter >= 0 {
		o.Count("fault:client_cancel_configured", 1)
	}
	if w.WriteAfter > 0 {
		o.Count("fault:reader_writes_mid_stream", 1)
	}
	if w.DeadlineUs > 0 {
		o.Count("fault:request_deadline_expires_mid_stream", 1)
	}
	if simrt.Policy(w.Run.Policy) == simrt.PolStarve {
		o.Count("fault:slow_stage_or_consumer", 1)
	}
	v, tr := c07Once(w, x, stmts, w.Run, 1)
	o.Fingerprint = hash64([]byte(fmt.Sprintf("%s/%d/%s/%d/%d/%x", w.Shape, w.Size, strings.Join(w.Prog, ";"), w.Run.CapDiv, w.CancelAfter, x.Stats.TraceHash)))
	o.NonTrivial = len(tr.Rows) > 0 && tr.CompileErr == ""
	if tr.CompileErr != "" {
		o.Count("compile_rejected", 1)
	}
	if x.Stats.Probes["client cancelled mid-stream"] > 0 {
		o.Count("fault:client_cancel_fired", 1)
	}
	if v == nil {
		return o
	}
	if v.Signature == "inconclusive" {
		o.Inconclusive = v.Detail
		return o
	}
	if strings.HasPrefix(v.Signature, "infra:") {
		o.Inconclusive = v.Signature
		return o
	}
	// liveness findings made with scaled-down capacities are confirmed at the
	// production constants before they are reported (DESIGN 2.6)
	if w.Run.CapDiv > 1 && strings.Contains(v.Signature, "/never-finishes/") && !x.Shrinking {
		scale := w.Run.CapDiv
		nv := len(w.graph(1).V)
		if nv*scale > 30000 {
			o.Count("unconfirmed_scaled(too large to confirm)", 1)
			o.Inconclusive = "unconfirmed scaled finding (confirmation workload too large)"
			return o
		}
		rc := w.Run
		rc.CapDiv = 1
		rc.MaxSteps = 40000000
		v2, _ := c07Once(w, x, stmts, rc, scale)
		if v2 == nil || !strings.Contains(v2.Signature, "/never-finishes/") {
			o.Count("unconfirmed_scaled", 1)
			o.Inconclusive = "unconfirmed scaled finding"
			return o
		}
		o.Count("confirmed_at_production_constants", 1)
		v.Detail += fmt.Sprintf("\nCONFIRMED at production buffer sizes with the workload scaled x%d (%d vertices): %s", scale, nv*scale, v2.Detail)
	}
	o.Violation = v
	return o
}

// c07Once runs the case once; returns nil when the property held.
func c07Once(w *c07W, x *Exec, stmts []*gripql.GraphStatement, rc RunCfg, scale int) (*Violation, travResult) {
	cfg := rc.Sim()
	gd := w.graph(scale)
	if cfg.MaxSteps == 0 {
		cfg.MaxSteps = 3000000
	}
	tr := runTraversal(x, cfg, gd, stmts, travOpts{CancelAfter: w.CancelAfter, WriteAfter: w.WriteAfter, DeadlineUs: w.DeadlineUs, StopReading: w.StopReading})
	if tr.Bubble.Verdict == simrt.Budget && simrt.Policy(rc.Policy) != simrt.PolRR {
		cfg.Policy = simrt.PolRR
		tr = runTraversal(x, cfg, gd, stmts, travOpts{CancelAfter: w.CancelAfter, WriteAfter: w.WriteAfter, DeadlineUs: w.DeadlineUs, StopReading: w.StopReading})
	}
	if tr.Bubble.Infra != "" {
		return &Violation{Signature: "infra:" + tr.Bubble.Infra}, tr
	}
	if tr.LoadErr != "" {
		return &Violation{Signature: "infra:load failed: " + tr.LoadErr}, tr
	}
	names := stmtNames(stmts)
	if len(tr.Bubble.Panics) > 0 {
		// a crash is C06's subject; here it also means the traversal never finished cleanly
		return &Violation{Signature: "C07/panic/" + panicSite(tr.Bubble.Panics[0]), Detail: "program " + names + ": " + tr.Bubble.Panics[0]}, tr
	}
	switch tr.Bubble.Verdict {
	case simrt.Budget:
		return &Violation{Signature: "inconclusive", Detail: "step budget"}, tr
	case simrt.Deadlock, simrt.Livelock:
		kind := "never-finishes"
		if tr.Closed || tr.CompileErr != "" {
			kind = "goroutines-left-after-stream-closed"
		}
		cls := fmt.Sprintf("C07/%s/%s", tr.Bubble.Verdict, kind)
		sig := cls + "/prog=" + names
		if w.CancelAfter >= 0 {
			sig += "+cancel"
		}
		if w.WriteAfter > 0 {
			sig += "+write-mid-stream"
		}
		if w.DeadlineUs > 0 {
			sig += "+deadline"
		}
		return &Violation{
			Class: cls, Signature: sig,
			Detail: fmt.Sprintf("program %s on %s(%d) [%d vertices, %d edges], capacities /%d, policy %s, cancel_after=%d: verdict %s after %d rows; client saw close: %v; goroutines left: %v",
				names, w.Shape, w.Size, len(gd.V), len(gd.E), rc.CapDiv, simrt.Policy(rc.Policy), w.CancelAfter, tr.Bubble.Verdict, len(tr.Rows), tr.Closed, tr.Bubble.LiveSites),
		}, tr
	}
	if tr.CompileErr == "" && !tr.Closed {
		return &Violation{Signature: "C07/stream-not-closed", Detail: "all goroutines exited but the client never saw the result stream close: " + names}, tr
	}
	if len(tr.TempLeft) > 0 {
		return &Violation{Signature: "C07/temp-dir-left", Detail: fmt.Sprintf("temporary directories left after %s: %v", names, tr.TempLeft)}, tr
	}
	if tr.KVOpen != 0 {
		return &Violation{Signature: "C07/temp-store-not-closed", Detail: fmt.Sprintf("%d temporary stores not closed after %s", tr.KVOpen, names)}, tr
	}
	return nil, tr
}
