//go:build verif

package scen

import (
	"context"
	"fmt"
	"strings"

	"github.com/bmeg/grip/gripql"
	"google.golang.org/protobuf/encoding/protojson"
	"google.golang.org/protobuf/proto"
	"verifsim/gen"
	"verifsim/model"
	"verifsim/simkv"
	"verifsim/simrt"
)

// C06 — no request can crash the server.
// A simulated hostile client sends generated requests (structurally valid
// protobuf, semantically arbitrary) to the real handlers of a GripServer over
// kvgraph on the simulated disk. Verdict: "simulated process death" = a panic
// that reaches the top of any goroutine, including the handler's (grpc-go does
// not recover handler panics; nothing in the repository does), or a worker
// killed by a Go fatal error. The scheduler matters for the schedule-dependent
// members of the class (send on / close of a closed channel, nil dereference
// after a racing cancel). After the request the server must still answer a
// trivial query.

type c06W struct {
	Run     RunCfg           `json:"run"`
	Graph   *model.GraphData `json:"graph"`
	Kind    string           `json:"kind"`    // traversal | submit | resume | addVertex | addEdge | bulk | misc
	Request string           `json:"request"` // protojson of the request message (or of a wrapper)
	Stream  []string         `json:"stream,omitempty"`
	Target  string           `json:"target_graph"`
}

func init() {
	Register(&Scenario{
		Name: "hostile-requests", Prop: "C06",
		Gen:    func(r *Rng, tier string, seed uint64) interface{} { return genC06(r, tier) },
		New:    func() interface{} { return &c06W{} },
		Exec:   func(w interface{}, x *Exec) *Outcome { return execC06(w.(*c06W), x) },
		Shrink: func(w interface{}) []interface{} { return shrinkC06(w.(*c06W)) },
		Real:   []string{"server handlers (Traversal, Submit, ResumeJob, ViewJob, AddVertex, AddEdge, BulkAdd, DeleteVertex, DeleteEdge, GetVertex, GetEdge, ListLabels, GetSchema, SampleSchema, AddSchema, ...)", "engine compiler/optimizer/processors/pipeline", "jobstorage", "kvgraph", "kvindex"},
		Stub:   []string{"storage engine (simkv)", "gRPC transport (in-process streams)"},
	})
}

func pj(m proto.Message) string {
	b, err := protojson.Marshal(m)
	if err != nil {
		return "{}"
	}
	return string(b)
}

func genC06(r *Rng, tier string) *c06W {
	w := &c06W{Run: GenRunCfg(r, []int{1, 1, 10, 100})}
	if r.Chance(25) {
		w.Graph = &model.GraphData{}
	} else {
		w.Graph = gen.Graph(r, gen.GraphOpts{MaxV: 6, MaxE: 10})
	}
	w.Target = Pick(r, []string{"g", "g", "g", "g", "nograph", "", "g__schema__"})
	hv := func() *gripql.Vertex {
		switch r.Intn(6) {
		case 0:
			return nil
		case 1:
			return &gripql.Vertex{}
		case 2:
			return &gripql.Vertex{Gid: "x", Label: "A"} // nil data
		}
		return toPV(gen.HVertex(r))
	}
	he := func() *gripql.Edge {
		switch r.Intn(6) {
		case 0:
			return nil
		case 1:
			return &gripql.Edge{}
		case 2:
			return &gripql.Edge{Label: "k", From: "v0", To: "v1"} // no gid: server generates one
		}
		return toPE(gen.HEdge(r))
	}
	switch k := r.Intn(100); {
	case k < 55:
		w.Kind = Pick(r, []string{"traversal", "traversal", "traversal", "submit"})
		w.Request = pj(&gripql.GraphQuery{Graph: w.Target, Query: gen.HostileProgram(r, w.Graph)})
	case k < 63:
		w.Kind = "resume"
		// a job is submitted first (V()), then resumed with a hostile extension
		hp := gen.HostileProgram(r, w.Graph)
		if len(hp) > 0 {
			hp = hp[1:]
		}
		w.Request = pj(&gripql.ExtendQuery{Graph: w.Target, SrcId: Pick(r, []string{"@job", "@job", "nojob", ""}), Query: hp})
	case k < 71:
		w.Kind = "addVertex"
		w.Request = pj(&gripql.GraphElement{Graph: w.Target, Vertex: hv(), Edge: nil})
	case k < 79:
		w.Kind = "addEdge"
		w.Request = pj(&gripql.GraphElement{Graph: w.Target, Edge: he()})
	case k < 90:
		w.Kind = "bulk"
		n := r.Intn(6)
		for i := 0; i < n; i++ {
			ge := &gripql.GraphElement{Graph: Pick(r, []string{"g", "g", "nograph", "g__schema__", ""})}
			switch r.Intn(4) {
			case 0:
				ge.Vertex = hv()
			case 1:
				ge.Edge = he()
			case 2:
				ge.Vertex, ge.Edge = hv(), he()
			}
			w.Stream = append(w.Stream, pj(ge))
		}
	default:
		w.Kind = "misc"
		w.Request = Pick(r, []string{"getVertex", "getEdge", "deleteVertex", "deleteEdge", "listLabels", "getSchema", "sampleSchema", "addSchema", "deleteGraph", "addGraph", "getTimestamp", "listIndices", "addIndex", "viewJob", "getJob", "deleteJob", "searchJobs", "listJobs", "getMapping"})
	}
	return w
}

func shrinkC06(w *c06W) []interface{} {
	var out []interface{}
	cp := func() *c06W { n := &c06W{}; jsonClone(w, n); return n }
	if w.Kind == "traversal" || w.Kind == "submit" {
		q := &gripql.GraphQuery{}
		if protojson.Unmarshal([]byte(w.Request), q) == nil {
			for i := len(q.Query) - 1; i >= 0; i-- {
				n := cp()
				q2 := proto.Clone(q).(*gripql.GraphQuery)
				q2.Query = append(q2.Query[:i], q2.Query[i+1:]...)
				n.Request = pj(q2)
				out = append(out, n)
			}
		}
	}
	if w.Kind == "resume" {
		q := &gripql.ExtendQuery{}
		if protojson.Unmarshal([]byte(w.Request), q) == nil {
			for i := len(q.Query) - 1; i >= 0; i-- {
				n := cp()
				q2 := proto.Clone(q).(*gripql.ExtendQuery)
				q2.Query = append(q2.Query[:i], q2.Query[i+1:]...)
				n.Request = pj(q2)
				out = append(out, n)
			}
		}
	}
	for i := len(w.Stream) - 1; i >= 0; i-- {
		n := cp()
		n.Stream = append(n.Stream[:i], n.Stream[i+1:]...)
		out = append(out, n)
	}
	for i := len(w.Graph.E) - 1; i >= 0; i-- {
		n := cp()
		n.Graph.E = append(n.Graph.E[:i], n.Graph.E[i+1:]...)
		out = append(out, n)
	}
	for i := len(w.Graph.V) - 1; i >= 0; i-- {
		n := cp()
		n.Graph.V = append(n.Graph.V[:i], n.Graph.V[i+1:]...)
		out = append(out, n)
	}
	if w.Run.Policy != 0 || w.Run.CapDiv != 1 {
		n := cp()
		n.Run.Policy, n.Run.CapDiv, n.Run.StarveIdx, n.Run.StarveSite = 0, 1, 0, ""
		out = append(out, n)
	}
	return out
}

func execC06(w *c06W, x *Exec) *Outcome {
	o := &Outcome{}
	b, _ := jsonMarshal(w)
	o.Fingerprint = hash64(b)
	o.NonTrivial = true
	o.Count("kind:"+w.Kind, 1)
	o.Count("policy:"+simrt.Policy(w.Run.Policy).String(), 1)
	cfg := w.Run.Sim()
	if cfg.MaxSteps == 0 {
		cfg.MaxSteps = 400000
	}
	answered, stillServing := false, false
	var handlerErr error
	what := w.Kind
	res := x.Bubble(cfg, func(s *simrt.Sim) func() bool {
		var srv *simServer
		var err error
		s.Passive(func() {
			srv, err = newSimServer(cleanDir(x.WorkDir+"/srv"), simkv.NewDisk(), true)
			if err != nil {
				return
			}
			srv.DB.AddGraph("g")
			g, _ := srv.DB.Graph("g")
			for _, v := range w.Graph.V {
				g.AddVertex(append([]*gdbiVertex{}, toGV(v)))
			}
			for _, e := range w.Graph.E {
				g.AddEdge(append([]*gdbiVertex{}, toGE(e)))
			}
			srv.Srv.VerifRefreshGraphMap()
		})
		if err != nil {
			handlerErr = err
			return nil
		}
		simrt.Go("client:hostile", func() {
			ctx := context.Background()
			switch w.Kind {
			case "traversal":
				q := &gripql.GraphQuery{}
				protojson.Unmarshal([]byte(w.Request), q)
				what = "Traversal " + stmtNamesSafe(q.Query)
				handlerErr = srv.Srv.Traversal(q, &traversalStream{})
			case "submit":
				q := &gripql.GraphQuery{}
				protojson.Unmarshal([]byte(w.Request), q)
				what = "Submit " + stmtNamesSafe(q.Query)
				job, err := srv.submitUnary(q)
				handlerErr = err
				if err == nil && job != nil {
					for i := 0; i < 200; i++ {
						st, err := srv.Srv.GetJob(ctx, job)
						if err != nil || st.State == gripql.JobState_COMPLETE || st.State == gripql.JobState_ERROR {
							break
						}
						sleepSim(1000)
					}
					srv.Srv.ViewJob(job, &traversalStream{})
				}
			case "resume":
				q := &gripql.ExtendQuery{}
				protojson.Unmarshal([]byte(w.Request), q)
				what = "ResumeJob " + stmtNamesSafe(q.Query)
				if q.SrcId == "@job" {
					job, err := srv.submitUnary(&gripql.GraphQuery{Graph: "g", Query: gen.StmtsOf(gen.V())})
					if err == nil {
						for i := 0; i < 200; i++ {
							st, err := srv.Srv.GetJob(ctx, job)
							if err != nil || st.State == gripql.JobState_COMPLETE {
								break
							}
							sleepSim(1000)
						}
						q.SrcId = job.Id
						if q.Graph == w.Target && w.Target != "g" {
							q.Graph = w.Target
						}
					}
				}
				handlerErr = srv.Srv.ResumeJob(q, &traversalStream{})
			case "addVertex":
				ge := &gripql.GraphElement{}
				protojson.Unmarshal([]byte(w.Request), ge)
				what = "AddVertex " + w.Request
				_, handlerErr = srv.Srv.AddVertex(ctx, ge)
			case "addEdge":
				ge := &gripql.GraphElement{}
				protojson.Unmarshal([]byte(w.Request), ge)
				what = "AddEdge " + w.Request
				_, handlerErr = srv.Srv.AddEdge(ctx, ge)
			case "bulk":
				st := &bulkStream{RecvErrAt: -1}
				for _, js := range w.Stream {
					ge := &gripql.GraphElement{}
					protojson.Unmarshal([]byte(js), ge)
					st.Elems = append(st.Elems, ge)
				}
				what = "BulkAdd " + strings.Join(w.Stream, " ")
				handlerErr = srv.Srv.BulkAdd(st)
			case "misc":
				what = w.Request + "(" + w.Target + ")"
				gid := &gripql.GraphID{Graph: w.Target}
				eid := &gripql.ElementID{Graph: w.Target, Id: "v0"}
				job := &gripql.QueryJob{Graph: w.Target, Id: "nojob"}
				switch w.Request {
				case "getVertex":
					_, handlerErr = srv.Srv.GetVertex(ctx, eid)
				case "getEdge":
					_, handlerErr = srv.Srv.GetEdge(ctx, eid)
				case "deleteVertex":
					_, handlerErr = srv.Srv.DeleteVertex(ctx, eid)
				case "deleteEdge":
					_, handlerErr = srv.Srv.DeleteEdge(ctx, eid)
				case "listLabels":
					_, handlerErr = srv.Srv.ListLabels(ctx, gid)
				case "getSchema":
					_, handlerErr = srv.Srv.GetSchema(ctx, gid)
				case "sampleSchema":
					_, handlerErr = srv.Srv.SampleSchema(ctx, gid)
				case "addSchema":
					_, handlerErr = srv.Srv.AddSchema(ctx, &gripql.Graph{Graph: w.Target, Vertices: []*gripql.Vertex{{Gid: "A", Label: "A"}, nil}, Edges: []*gripql.Edge{{Gid: "x", Label: "k", From: "A", To: "A"}}})
				case "deleteGraph":
					_, handlerErr = srv.Srv.DeleteGraph(ctx, gid)
				case "addGraph":
					_, handlerErr = srv.Srv.AddGraph(ctx, gid)
				case "getTimestamp":
					_, handlerErr = srv.Srv.GetTimestamp(ctx, gid)
				case "listIndices":
					_, handlerErr = srv.Srv.ListIndices(ctx, gid)
				case "addIndex":
					_, handlerErr = srv.Srv.AddIndex(ctx, &gripql.IndexID{Graph: w.Target, Label: "A", Field: "n"})
				case "viewJob":
					handlerErr = srv.Srv.ViewJob(job, &traversalStream{})
				case "getJob":
					_, handlerErr = srv.Srv.GetJob(ctx, job)
				case "deleteJob":
					_, handlerErr = srv.Srv.DeleteJob(ctx, job)
				case "searchJobs":
					handlerErr = srv.Srv.SearchJobs(&gripql.GraphQuery{Graph: w.Target, Query: gen.StmtsOf(gen.V(), gen.Out())}, &jobStatusStream{})
				case "listJobs":
					handlerErr = srv.Srv.ListJobs(gid, &jobListStream{})
				}
			}
			answered = true
			// the server keeps serving
			ts := &traversalStream{}
			if err := srv.Srv.Traversal(&gripql.GraphQuery{Graph: "g", Query: gen.StmtsOf(gen.V(), gen.Count())}, ts); err == nil && len(ts.Rows) == 1 {
				stillServing = true
			} else if w.Kind == "misc" && w.Request == "deleteGraph" && w.Target == "g" {
				stillServing = true // the graph was deleted on request
			}
		})
		return nil
	}, nil)
	_ = handlerErr
	switch {
	case res.Infra != "":
		o.Inconclusive = "infra:" + res.Infra
	case len(res.Panics) > 0:
		o.Violation = &Violation{Class: "C06/server-death", Signature: "C06/server-death/" + panicSite(res.Panics[0]), Detail: fmt.Sprintf("request %s: a panic reached the top of a goroutine (the server process terminates):\n%s", what, res.Panics[0])}
	case res.Verdict == simrt.Budget:
		o.Inconclusive = "step budget"
	case res.Verdict == simrt.Deadlock || res.Verdict == simrt.Livelock:
		// not a crash; termination is C07/C12's subject. Counted, not reported here.
		o.Count("request_never_finished(not judged here)", 1)
	case !answered:
		o.Inconclusive = "handler did not return"
	case !stillServing:
		o.Violation = &Violation{Signature: "C06/not-serving-after/" + w.Kind, Detail: "after request " + what + " the server no longer answers V().count() on graph g"}
	}
	return o
}

func stmtNamesSafe(q []*gripql.GraphStatement) string {
	var out []string
	for _, s := range q {
		if s == nil || s.Statement == nil {
			out = append(out, "<empty>")
			continue
		}
		n := fmt.Sprintf("%T", s.Statement)
		out = append(out, strings.TrimPrefix(n, "*gripql.GraphStatement_"))
	}
	return strings.Join(out, ".")
}
