//go:build verif

package scen

import (
	"context"
	"fmt"
	"os"

	"github.com/bmeg/grip/gripql"
	"verifsim/gen"
	"verifsim/model"
	"verifsim/simkv"
	"verifsim/simrt"
)

// C11, failing file writes — "a submitted job, once complete, stores exactly
// the rows ... and the count reported in its status" while the disk under the
// job store fails: a crash-free run counts the file writes of the job store
// (simrt.FileWrite), then the same seeded workload is re-run with the k-th
// write failing (that one only, or every write from the k-th on: a full disk).
// The server keeps running. Whatever job it reports COMPLETE - now, and after a
// restart of the job store - must store exactly the rows of the direct
// traversal and report their number; a job may instead end in ERROR or never
// be listed. (An injected write error may make an operation fail; it may not
// make it lie.)

type c11dW struct {
	Run    RunCfg           `json:"run"`
	Graph  *model.GraphData `json:"graph"`
	Progs  [][]string       `json:"progs"`
	FailAt []int            `json:"fail_at"` // permille of the file writes of the fault-free run
	Sticky bool             `json:"sticky"`
}

func init() {
	Register(&Scenario{
		Name: "jobs-disk-full", Prop: "C11", Weight: 1,
		Gen: func(r *Rng, tier string, seed uint64) interface{} {
			w := &c11dW{Run: GenRunCfg(r, []int{1, 1, 10}), Sticky: r.Chance(50)}
			maxV := []int{2, 4, 8}[r.Intn(3)]
			w.Graph = gen.Graph(r, gen.GraphOpts{MaxV: maxV, MaxE: maxV * 2})
			for i := 0; i < 1+r.Intn(2); i++ {
				w.Progs = append(w.Progs, gen.StmtsJSON(deterministicProg(r, w.Graph)))
			}
			for i := 0; i < 5; i++ {
				w.FailAt = append(w.FailAt, r.Intn(1001))
			}
			w.FailAt = append(w.FailAt, 1000-r.Intn(40))
			return w
		},
		New:  func() interface{} { return &c11dW{} },
		Exec: func(w interface{}, x *Exec) *Outcome { return execC11d(w.(*c11dW), x) },
		Shrink: func(wi interface{}) []interface{} {
			w := wi.(*c11dW)
			var out []interface{}
			cp := func() *c11dW { n := &c11dW{}; jsonClone(w, n); return n }
			for i := len(w.Progs) - 1; i >= 0 && len(w.Progs) > 1; i-- {
				n := cp()
				n.Progs = append(n.Progs[:i], n.Progs[i+1:]...)
				out = append(out, n)
			}
			for i := len(w.FailAt) - 1; i >= 0 && len(w.FailAt) > 1; i-- {
				n := cp()
				n.FailAt = append(n.FailAt[:i], n.FailAt[i+1:]...)
				out = append(out, n)
			}
			for i := len(w.Graph.E) - 1; i >= 0; i-- {
				n := cp()
				n.Graph.E = append(n.Graph.E[:i], n.Graph.E[i+1:]...)
				out = append(out, n)
			}
			if w.Run.Policy != 0 || w.Run.CapDiv != 1 {
				n := cp()
				n.Run.Policy, n.Run.CapDiv, n.Run.StarveIdx, n.Run.StarveSite = 0, 1, 0, ""
				out = append(out, n)
			}
			return out
		},
		Real: []string{"jobstorage.Spool (file writes through a failing seam), Stream, Status, NewFSJobStorage", "server job handlers"},
		Stub: []string{"file writes of the job store: real writes, except the injected failures (nothing is written by a failed write)"},
	})
}

func execC11d(w *c11dW, x *Exec) *Outcome {
	o := &Outcome{}
	b, _ := jsonMarshal(w)
	o.Fingerprint = hash64(b)
	o.NonTrivial = true
	o.Count("policy:"+simrt.Policy(w.Run.Policy).String(), 1)
	dir := x.WorkDir + "/c11d"
	var viol *Violation
	fail := func(sig, detail string) {
		if viol == nil {
			viol = &Violation{Class: "C11/disk-full", Signature: "C11/disk-full/" + sig, Detail: detail}
		}
	}
	run := func(k int) (res BubbleResult, writes int, setup error) {
		os.RemoveAll(dir)
		cfg := w.Run.Sim()
		cfg.FailFileWrite, cfg.FailFileSticky = k, w.Sticky
		if cfg.MaxSteps == 0 {
			cfg.MaxSteps = 2000000
		}
		where := fmt.Sprintf("file write %d failing (sticky=%v)", k, w.Sticky)
		res = x.Bubble(cfg, func(s *simrt.Sim) func() bool {
			var srv *simServer
			s.Passive(func() {
				srv, setup = newSimServer(dir, simkv.NewDisk(), true)
				if setup != nil {
					return
				}
				srv.DB.AddGraph("g")
				g, _ := srv.DB.Graph("g")
				for _, v := range w.Graph.V {
					g.AddVertex([]*gdbiVertex{toGV(v)})
				}
				for _, e := range w.Graph.E {
					g.AddEdge([]*gdbiVertex{toGE(e)})
				}
				srv.Srv.VerifRefreshGraphMap()
			})
			if setup != nil {
				return nil
			}
			simrt.Go("client:jobs", func() {
				ctx := context.Background()
				check := func(when string) {
					ls := &jobListStream{}
					srv.Srv.ListJobs(&gripql.GraphID{Graph: "g"}, ls)
					for _, j := range ls.Jobs {
						st, err := srv.Srv.GetJob(ctx, &gripql.QueryJob{Graph: "g", Id: j.Id})
						if err != nil || st == nil || st.State != gripql.JobState_COMPLETE {
							continue
						}
						ts := &traversalStream{}
						if err := srv.Srv.Traversal(&gripql.GraphQuery{Graph: "g", Query: st.Query}, ts); err != nil {
							continue
						}
						vs := &traversalStream{}
						srv.Srv.ViewJob(&gripql.QueryJob{Graph: "g", Id: j.Id}, vs)
						if d := model.MultisetDiff(ts.Rows, vs.Rows); d != "" {
							fail("complete-job-rows-differ/"+when, fmt.Sprintf("%s: job %s (%s) is reported COMPLETE %s: direct traversal (expected) vs stored rows (got): %s", where, j.Id, stmtNames(st.Query), when, d))
						} else if int(st.Count) != len(ts.Rows) {
							fail("complete-job-count-differs/"+when, fmt.Sprintf("%s: job %s (%s): count %d, %d rows", where, j.Id, stmtNames(st.Query), st.Count, len(ts.Rows)))
						}
						o.Count("complete_jobs_checked", 1)
					}
				}
				for _, pj := range w.Progs {
					p, err := gen.StmtsFromJSON(pj)
					if err != nil {
						continue
					}
					job, err := srv.submitUnary(&gripql.GraphQuery{Graph: "g", Query: p})
					if err != nil || job == nil {
						continue
					}
					for n := 0; n < 400; n++ {
						st, e := srv.Srv.GetJob(ctx, job)
						if e != nil || st.State == gripql.JobState_COMPLETE || st.State == gripql.JobState_ERROR {
							break
						}
						sleepSim(1000 << uint(mini(n, 10)))
					}
				}
				check("by the running server")
				srv.restartJobs()
				check("after a restart of the job store")
			})
			return nil
		}, func(s *simrt.Sim, v simrt.Verdict) { writes = s.FileWrites() })
		return
	}
	judge := func(res BubbleResult, setup error) bool {
		switch {
		case setup != nil:
			o.Inconclusive = "infra:setup: " + setup.Error()
		case res.Infra != "":
			o.Inconclusive = "infra:" + res.Infra
		case len(res.Panics) > 0:
			o.Violation = &Violation{Class: "C11/server-death", Signature: "C11/server-death/" + panicSite(res.Panics[0]), Detail: res.Panics[0]}
		case res.Verdict == simrt.Budget:
			o.Inconclusive = "step budget"
		case res.Verdict != simrt.Done:
			o.Violation = &Violation{Class: "C11/stuck", Signature: fmt.Sprintf("C11/%s/%s", res.Verdict, blockedSig(res.LiveSites)), Detail: fmt.Sprintf("job workload never finished: %v", res.LiveSites)}
		default:
			return true
		}
		return false
	}
	res, N, setup := run(0)
	if !judge(res, setup) {
		return o
	}
	if viol != nil { // fault-free run: the plain C11 oracle
		o.Violation = viol
		return o
	}
	if N == 0 {
		o.Inconclusive = "no file write reached"
		return o
	}
	seen := map[int]bool{}
	for _, pm := range w.FailAt {
		k := 1 + (N-1)*pm/1000
		if seen[k] {
			continue
		}
		seen[k] = true
		res, _, setup := run(k)
		o.Count("fault:file_write_error", 1)
		if !judge(res, setup) {
			return o
		}
		if viol != nil {
			o.Violation = viol
			return o
		}
	}
	return o
}
