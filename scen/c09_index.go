package scen

import (
	"context"
	"fmt"
	"math"
	"sort"
	"strings"

	"github.com/bmeg/grip/kvindex"
	"verifsim/model"
	"verifsim/simkv"
	"verifsim/simrt"
)

// C09 — secondary-index answers equal a scan of the live documents.
// A single client drives kvindex.KVIndex over the simulated disk with seeded
// histories (field registration/removal, document insertion, replacement,
// removal, reopen); after every step every query method is compared with a
// brute-force scan (refindex). The query methods stream through goroutines and
// (fieldTermCounts) write counts back inside the scan: they run under the
// scheduler with scaled channel capacities.

type ixOp struct {
	Op    string                 `json:"op"` // addField removeField addDoc removeDoc reopen
	Field string                 `json:"field,omitempty"`
	Doc   string                 `json:"doc,omitempty"`
	Value map[string]interface{} `json:"value,omitempty"`
}

type c09W struct {
	Run     RunCfg   `json:"run"`
	Ops     []ixOp   `json:"ops"`
	Avoided []string `json:"avoided_shapes,omitempty"`
	// Unobserved[i]: no query runs after step i. Queries are not read-only
	// here (per-term counts are recounted and written back by the query that
	// finds them invalidated), so observing after every step would hide every
	// state in which a mutation meets an invalidated count.
	Unobserved []bool `json:"unobserved,omitempty"`
	// extra numeric windows for the range query (besides the fixed ones)
	Windows [][2]float64 `json:"windows,omitempty"`
	// FailListingCommit: the write-back transaction of the per-term count
	// listings fails with an I/O error (the listing itself must still be right)
	FailListingCommit bool `json:"fail_listing_commit,omitempty"`
	// StallUs > 0: the reader of every streamed answer pauses that long
	// (simulated) after the first item it receives
	StallUs int `json:"stall_us,omitempty"`
}

var ixFields = []string{"f", "g.h", "n"}
var ixDocs = []string{"d1", "d2", "d3", "d4"}
// long terms that differ only after several hundred (thousand) bytes: a term
// is stored whole, whatever its length
var ixLong = []string{strings.Repeat("x", 300) + "-alpha", strings.Repeat("x", 300) + "-beta", strings.Repeat("yz", 1100) + "1", strings.Repeat("yz", 1100) + "2"}
var ixStrs = []string{"x", "y", "x y", ixLong[0], ixLong[1], ixLong[2], ixLong[3]}
var ixNums = []float64{-1e9, -2.5, -1, 0, 0.5, 1, 2, 1e-9, 1e9, math.MaxFloat64, math.SmallestNonzeroFloat64, -math.MaxFloat64}

func init() {
	Register(&Scenario{
		Name: "index-history", Prop: "C09",
		Gen:    func(r *Rng, tier string, seed uint64) interface{} { return genC09(r, tier) },
		New:    func() interface{} { return &c09W{} },
		Exec:   func(w interface{}, x *Exec) *Outcome { return execC09(w.(*c09W), x) },
		Shrink: func(w interface{}) []interface{} { return shrinkC09(w.(*c09W)) },
		Real:   []string{"kvindex (kvindex.go, keys.go, entries.go)"},
		Stub:   []string{"storage engine (simkv)"},
	})
}

// numeric windows of the range query: a fixed set plus the seeded ones of the
// current workload (set by execC09; a worker runs one case at a time)
var ixExtraWindows [][2]float64

// per-case query-time faults (set by execC09; a worker runs one case at a time)
var ixFailCommitDisk *simkv.Disk
var ixStallUs int

func ixStall(n int) {
	if ixStallUs > 0 && n == 1 {
		simrt.Probe("reader of a streamed index answer stalled")
		sleepSim(ixStallUs)
	}
}

func ixWindows() [][2]float64 {
	return append([][2]float64{{-3, 3}, {-1e10, 0.75}, {0.25, 1e10}, {-2, -0.5}, {1.5, 1e300}}, ixExtraWindows...)
}

func ixValue(r *Rng) interface{} {
	switch r.Intn(10) {
	case 0, 1, 2:
		if r.Chance(70) {
			return Pick(r, ixStrs[:3])
		}
		return Pick(r, ixStrs)
	case 9:
		return true // unsupported term type: must not be indexed
	}
	return ixNums[r.Intn(len(ixNums))]
}

func ixDoc(r *Rng) map[string]interface{} {
	d := map[string]interface{}{}
	if r.Chance(70) {
		d["f"] = ixValue(r)
	}
	if r.Chance(50) {
		d["g"] = map[string]interface{}{"h": ixValue(r)}
	}
	if r.Chance(60) {
		d["n"] = ixNums[r.Intn(len(ixNums))]
	}
	return d
}

func genC09(r *Rng, tier string) *c09W {
	w := &c09W{Run: GenRunCfg(r, []int{1, 10, 1000})}
	avoid := r.Chance(50)
	n := 2 + r.Intn(12)
	if r.Chance(30) {
		n = 2 + r.Intn(3)
	}
	if avoid {
		// avoidance mode (recorded findings): every field is registered before any
		// document and never removed; a document id is written again only after it
		// was removed
		w.Avoided = []string{"field registered after documents exist", "document replaced without removal", "field removed"}
		for _, f := range ixFields {
			if r.Chance(80) {
				w.Ops = append(w.Ops, ixOp{Op: "addField", Field: f})
				if r.Chance(25) {
					// registered twice before any document exists: registration is idempotent
					w.Ops = append(w.Ops, ixOp{Op: "addField", Field: f})
				}
			}
		}
	}
	quiet := avoid && r.Chance(60)
	w.FailListingCommit = r.Chance(10)
	if r.Chance(10) {
		w.StallUs = []int{7000000, 120000000}[r.Intn(2)]
	}
	bounds := []float64{-1e9, -2.5, -1, -0.25, 0, 0.25, 0.5, 1, 1.5, 2, 1e9, -3}
	for i := 0; i < r.Intn(4); i++ {
		a, b := bounds[r.Intn(len(bounds))], bounds[r.Intn(len(bounds))]
		if a > b {
			a, b = b, a
		}
		w.Windows = append(w.Windows, [2]float64{a, b})
	}
	live := map[string]bool{}
	defer func() {
		if quiet {
			for range w.Ops {
				w.Unobserved = append(w.Unobserved, r.Chance(60))
			}
		}
	}()
	for len(w.Ops) < n {
		switch k := r.Intn(100); {
		case k < 15:
			if avoid {
				continue
			}
			w.Ops = append(w.Ops, ixOp{Op: "addField", Field: Pick(r, ixFields)})
		case k < 20:
			if avoid {
				continue
			}
			w.Ops = append(w.Ops, ixOp{Op: "removeField", Field: Pick(r, ixFields)})
		case k < 70:
			d := Pick(r, ixDocs)
			if avoid && live[d] {
				continue
			}
			live[d] = true
			w.Ops = append(w.Ops, ixOp{Op: "addDoc", Doc: d, Value: ixDoc(r)})
		case k < 90:
			d := Pick(r, ixDocs)
			delete(live, d)
			w.Ops = append(w.Ops, ixOp{Op: "removeDoc", Doc: d})
		default:
			w.Ops = append(w.Ops, ixOp{Op: "reopen"})
		}
	}
	return w
}

func shrinkC09(w *c09W) []interface{} {
	var out []interface{}
	cp := func() *c09W { n := &c09W{}; jsonClone(w, n); return n }
	for i := len(w.Ops) - 1; i >= 0; i-- {
		n := cp()
		n.Ops = append(n.Ops[:i], n.Ops[i+1:]...)
		if i < len(n.Unobserved) {
			n.Unobserved = append(n.Unobserved[:i], n.Unobserved[i+1:]...)
		}
		out = append(out, n)
	}
	for i := len(w.Windows) - 1; i >= 0; i-- {
		n := cp()
		n.Windows = append(n.Windows[:i], n.Windows[i+1:]...)
		out = append(out, n)
	}
	for i, op := range w.Ops {
		for k := range op.Value {
			n := cp()
			delete(n.Ops[i].Value, k)
			out = append(out, n)
		}
	}
	if w.Run.Policy != 0 || w.Run.CapDiv != 1 {
		n := cp()
		n.Run.Policy, n.Run.CapDiv, n.Run.StarveIdx, n.Run.StarveSite = 0, 1, 0, ""
		out = append(out, n)
	}
	return out
}

func fnum(f float64) string { return fmt.Sprintf("%g", f) }

// queryReal runs every query method; must be called from a simulated goroutine.
func ixQueryReal(idx *kvindex.KVIndex) map[string]string {
	o := map[string]string{}
	ctx := context.Background()
	drainS := func(ch chan string) []string {
		var out []string
		for {
			hyield("h:q-recv")
			s, ok := <-ch
			if !ok {
				break
			}
			out = append(out, s)
		}
		return out
	}
	for _, f := range ixFields {
		for _, s := range ixStrs {
			ids := drainS(idx.GetTermMatch(ctx, f, s, 0))
			sort.Strings(ids)
			o[fmt.Sprintf("term-match(%s,%q)", f, s)] = strings.Join(ids, ",")
		}
		for _, n := range []float64{-2.5, 0, 1, 1e9, -1e9} {
			ids := drainS(idx.GetTermMatch(ctx, f, n, 0))
			sort.Strings(ids)
			o[fmt.Sprintf("term-match(%s,%s)", f, fnum(n))] = strings.Join(ids, ",")
		}
		var terms []string
		ft := idx.FieldTerms(f)
		for {
			hyield("h:q-recv")
			t, ok := <-ft
			if !ok {
				break
			}
			switch x := t.(type) {
			case string:
				terms = append(terms, "s:"+x)
			case float64:
				terms = append(terms, "n:"+fnum(x))
			default:
				terms = append(terms, fmt.Sprintf("?:%v", t))
			}
		}
		sort.Strings(terms)
		o["field-terms("+f+")"] = strings.Join(terms, ",")
		tc := func(ch chan kvindex.KVTermCount) string {
			var out []string
			for {
				hyield("h:q-recv")
				c, ok := <-ch
				if !ok {
					break
				}
				ixStall(len(out) + 1)
				if c.String != "" {
					out = append(out, fmt.Sprintf("s:%s=%d", c.String, c.Count))
				} else {
					out = append(out, fmt.Sprintf("n:%s=%d", fnum(c.Number), c.Count))
				}
			}
			sort.Strings(out)
			return strings.Join(out, ",")
		}
		listing := func(key string, start func() chan kvindex.KVTermCount) {
			if ixFailCommitDisk != nil {
				ixFailCommitDisk.Arm(-1, 0, false) // the next top-level write (the listing's write-back) fails
			}
			o[key] = tc(start())
			if ixFailCommitDisk != nil {
				ixFailCommitDisk.Disarm()
			}
		}
		listing("term-counts("+f+")", func() chan kvindex.KVTermCount { return idx.FieldTermCounts(f) })
		listing("string-term-counts("+f+")", func() chan kvindex.KVTermCount { return idx.FieldStringTermCounts(f) })
		o["number-min("+f+")"] = fnum(idx.FieldTermNumberMin(f))
		o["number-max("+f+")"] = fnum(idx.FieldTermNumberMax(f))
		var nums []string
		fn := idx.FieldNumbers(f)
		for {
			hyield("h:q-recv")
			n, ok := <-fn
			if !ok {
				break
			}
			nums = append(nums, fnum(n))
		}
		o["numbers-ascending("+f+")"] = strings.Join(nums, ",")
		for _, wdw := range ixWindows() {
			var out []string
			rc := idx.FieldTermNumberRange(f, wdw[0], wdw[1])
			for {
				hyield("h:q-recv")
				c, ok := <-rc
				if !ok {
					break
				}
				out = append(out, fmt.Sprintf("%s=%d", fnum(c.Number), c.Count))
				ixStall(len(out))
			}
			sort.Strings(out)
			o[fmt.Sprintf("number-range(%s,%s,%s)", f, fnum(wdw[0]), fnum(wdw[1]))] = strings.Join(out, ",")
		}
	}
	return o
}

func ixQueryModel(m *model.RefIndex) map[string]string {
	o := map[string]string{}
	for _, f := range ixFields {
		for _, s := range ixStrs {
			o[fmt.Sprintf("term-match(%s,%q)", f, s)] = strings.Join(m.TermMatch(f, s), ",")
		}
		for _, n := range []float64{-2.5, 0, 1, 1e9, -1e9} {
			o[fmt.Sprintf("term-match(%s,%s)", f, fnum(n))] = strings.Join(m.TermMatch(f, n), ",")
		}
		var terms, tcs, stcs []string
		for _, c := range m.TermCounts(f, false) {
			if c.IsNum {
				terms = append(terms, "n:"+fnum(c.N))
				tcs = append(tcs, fmt.Sprintf("n:%s=%d", fnum(c.N), c.Count))
			} else {
				terms = append(terms, "s:"+c.S)
				tcs = append(tcs, fmt.Sprintf("s:%s=%d", c.S, c.Count))
				stcs = append(stcs, fmt.Sprintf("s:%s=%d", c.S, c.Count))
			}
		}
		sort.Strings(terms)
		sort.Strings(tcs)
		sort.Strings(stcs)
		o["field-terms("+f+")"] = strings.Join(terms, ",")
		o["term-counts("+f+")"] = strings.Join(tcs, ",")
		o["string-term-counts("+f+")"] = strings.Join(stcs, ",")
		if mn, mx, ok := m.MinMax(f); ok {
			o["number-min("+f+")"] = fnum(mn)
			o["number-max("+f+")"] = fnum(mx)
		} else {
			o["number-min("+f+")"] = "*" // no numeric term: the return value is not specified
			o["number-max("+f+")"] = "*"
		}
		var nums []string
		for _, n := range m.Numbers(f) {
			nums = append(nums, fnum(n))
		}
		o["numbers-ascending("+f+")"] = strings.Join(nums, ",")
	}
	return o
}

func execC09(w *c09W, x *Exec) *Outcome {
	o := &Outcome{}
	b, _ := jsonMarshal(w.Ops)
	o.Fingerprint = hash64(b)
	o.NonTrivial = len(w.Ops) >= 2
	o.Count("policy:"+simrt.Policy(w.Run.Policy).String(), 1)
	var viol *Violation
	cfg := w.Run.Sim()
	if cfg.MaxSteps == 0 {
		cfg.MaxSteps = 3000000
	}
	ixExtraWindows = w.Windows
	ixStallUs = w.StallUs
	ixFailCommitDisk = nil
	defer func() { ixStallUs, ixFailCommitDisk = 0, nil }()
	if w.StallUs > 0 {
		o.Count("fault:stalled_reader", 1)
	}
	if w.FailListingCommit {
		o.Count("fault:listing_write_back_fails", 1)
	}
	res := x.Bubble(cfg, func(s *simrt.Sim) func() bool {
		simrt.Go("client:index", func() {
			disk := simkv.NewDisk()
			if w.FailListingCommit {
				ixFailCommitDisk = disk
			}
			idx := kvindex.NewIndex(disk.Open())
			m := model.NewRefIndex()
			docsBeforeField := false
			for i, op := range w.Ops {
				shape := op.Op
				switch op.Op {
				case "addField":
					if len(m.Docs) > 0 && !m.Fields[op.Field] {
						shape = "addField(after documents exist)"
						docsBeforeField = true
					}
					idx.AddField(op.Field)
					m.Fields[op.Field] = true
				case "removeField":
					idx.RemoveField(op.Field)
					delete(m.Fields, op.Field)
				case "addDoc":
					if _, ok := m.Docs[op.Doc]; ok {
						shape = "addDoc(replacing)"
					}
					if err := idx.AddDoc(op.Doc, model.DeepCopyMap(op.Value)); err != nil {
						// unsupported term types make AddDoc fail as a whole: nothing may change
						shape = "addDoc(rejected)"
						o.Count("addDoc_rejected", 1)
					} else {
						m.Docs[op.Doc] = model.DeepCopyMap(op.Value)
					}
				case "removeDoc":
					idx.RemoveDoc(op.Doc)
					delete(m.Docs, op.Doc)
				case "reopen":
					idx = kvindex.NewIndex(disk.Open())
					o.Count("fault:clean_reopen", 1)
				}
				_ = docsBeforeField
				if i < len(w.Unobserved) && w.Unobserved[i] && i != len(w.Ops)-1 {
					o.Count("steps_not_observed", 1)
					continue
				}
				got := ixQueryReal(idx)
				want := ixQueryModel(m)
				keys := make([]string, 0, len(want))
				for k := range want {
					keys = append(keys, k)
				}
				sort.Strings(keys)
				for _, k := range keys {
					if want[k] == "*" || want[k] == got[k] {
						continue
					}
					kind := k[:strings.Index(k, "(")]
					v := &Violation{Class: "C09/query=" + kind, Signature: "C09/query=" + kind + "/after=" + shape, Detail: fmt.Sprintf("step %d %s %s %s %v: query %s\n  scan of live documents: %s\n  index answered:         %s", i, op.Op, op.Field, op.Doc, op.Value, k, want[k], got[k])}
					if x.IsKnown("C09", v.Signature) {
						o.KnownHits = append(o.KnownHits, v.Signature)
						o.Count("ended_at_known", 1)
					}
					viol = v
					return
				}
				// numeric windows: strictly inside terms exact, outside terms absent, boundaries free
				for _, f := range ixFields {
					for _, wdw := range ixWindows() {
						key := fmt.Sprintf("number-range(%s,%s,%s)", f, fnum(wdw[0]), fnum(wdw[1]))
						inside, boundary := m.RangeCounts(f, wdw[0], wdw[1])
						gotm := map[string]string{}
						for _, e := range strings.Split(got[key], ",") {
							if e == "" {
								continue
							}
							kv := strings.SplitN(e, "=", 2)
							gotm[kv[0]] = kv[1]
						}
						bad := ""
						for n, c := range inside {
							if gotm[fnum(n)] != fmt.Sprint(c) {
								bad = fmt.Sprintf("term %s strictly inside the window has count %d in the scan, index says %q", fnum(n), c, gotm[fnum(n)])
							}
							delete(gotm, fnum(n))
						}
						for n := range boundary {
							delete(gotm, fnum(n))
						}
						if bad == "" && len(gotm) > 0 {
							bad = fmt.Sprintf("index reports terms outside the window or not live: %v", gotm)
						}
						if bad != "" {
							v := &Violation{Class: "C09/query=number-range", Signature: "C09/query=number-range/after=" + shape, Detail: fmt.Sprintf("step %d %s: %s: %s (index answered %s)", i, op.Op, key, bad, got[key])}
							if x.IsKnown("C09", v.Signature) {
								o.KnownHits = append(o.KnownHits, v.Signature)
								o.Count("ended_at_known", 1)
							}
							viol = v
							return
						}
					}
				}
				o.Count("steps_judged", 1)
			}
		})
		return nil
	}, nil)
	switch {
	case res.Infra != "":
		o.Inconclusive = "infra:" + res.Infra
	case len(res.Panics) > 0:
		o.Violation = &Violation{Signature: "C09/panic/" + panicSite(res.Panics[0]), Detail: res.Panics[0]}
	case res.Verdict == simrt.Budget:
		o.Inconclusive = "step budget"
	case res.Verdict != simrt.Done:
		o.Violation = &Violation{Signature: fmt.Sprintf("C09/%s", res.Verdict), Detail: fmt.Sprintf("a query never finished: %v", res.LiveSites)}
	default:
		o.Violation = viol
	}
	return o
}
