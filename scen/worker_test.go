package scen

import "testing"

// TestWorker is started by cmd/vsim with the VSIM_* environment.
func TestWorker(t *testing.T) { workerMain(t) }
