//go:build verif

package scen

import (
	"context"
	"fmt"
	"io"
	"os"
	"path/filepath"

	"github.com/bmeg/grip/config"
	"github.com/bmeg/grip/gdbi"
	"github.com/bmeg/grip/gripql"
	"github.com/bmeg/grip/jobstorage"
	"github.com/bmeg/grip/kvgraph"
	"github.com/bmeg/grip/server"
	"google.golang.org/grpc/metadata"
	"google.golang.org/protobuf/proto"
	"verifsim/simkv"
	"verifsim/simrt"
)

// In-process GRIP server for the simulator: a real server.GripServer over
// kvgraph on the simulated disk, driven at its handler methods with in-process
// stream objects. Serve() (TCP listeners, HTTP gateway) is not part of any
// simulation; gRPC transport is stubbed by the stream objects below.

type simServer struct {
	Srv     *server.GripServer
	Disk    *simkv.Disk
	DB      gdbi.GraphDB
	WorkDir string
	JobDir  string
}

// newSimServer builds a server; call with the simulator passive or from a
// simulated goroutine.
func newSimServer(workDir string, disk *simkv.Disk, withJobs bool) (*simServer, error) {
	os.MkdirAll(workDir, 0755)
	conf := config.DefaultConfig()
	conf.Server.WorkDir = filepath.Join(workDir, "srvwork")
	os.MkdirAll(conf.Server.WorkDir, 0755)
	conf.Default = "sim"
	db := kvgraph.NewKVGraph(disk.Open())
	srv, err := server.NewGripServer(conf, "", map[string]gdbi.GraphDB{"sim": db})
	if err != nil {
		return nil, err
	}
	s := &simServer{Srv: srv, Disk: disk, DB: db, WorkDir: workDir, JobDir: filepath.Join(workDir, "jobs")}
	if withJobs {
		srv.VerifAttachJobStorage(jobstorage.NewFSJobStorage(s.JobDir))
	}
	srv.VerifRefreshGraphMap()
	return s, nil
}

// restartJobs simulates a server restart for the job service: a new storage
// object over the same directory.
func (s *simServer) restartJobs() {
	s.Srv.VerifAttachJobStorage(jobstorage.NewFSJobStorage(s.JobDir))
}

// ---------------------------------------------------------------------------
// stream plumbing

type baseStream struct{ ctx context.Context }

func (b *baseStream) SetHeader(metadata.MD) error  { return nil }
func (b *baseStream) SendHeader(metadata.MD) error { return nil }
func (b *baseStream) SetTrailer(metadata.MD)       {}
func (b *baseStream) Context() context.Context {
	if b.ctx == nil {
		return context.Background()
	}
	return b.ctx
}
func (b *baseStream) SendMsg(m interface{}) error { return nil }
func (b *baseStream) RecvMsg(m interface{}) error { return io.EOF }

// traversalStream collects Query_TraversalServer / Job_ViewJobServer /
// Job_ResumeJobServer rows.
type traversalStream struct {
	baseStream
	Rows []string
	N    int
	OnRow func(n int)
}

func (t *traversalStream) Send(r *gripql.QueryResult) error {
	hyield("h:stream-send")
	simrt.Progress() // a delivered row is progress
	t.Rows = append(t.Rows, CanonRow(r))
	t.N++
	if t.OnRow != nil {
		t.OnRow(t.N)
	}
	return nil
}

type jobListStream struct {
	baseStream
	Jobs []*gripql.QueryJob
}

func (t *jobListStream) Send(j *gripql.QueryJob) error {
	hyield("h:stream-send")
	t.Jobs = append(t.Jobs, j)
	return nil
}

type jobStatusStream struct {
	baseStream
	Jobs []*gripql.JobStatus
}

func (t *jobStatusStream) Send(j *gripql.JobStatus) error {
	hyield("h:stream-send")
	t.Jobs = append(t.Jobs, proto.Clone(j).(*gripql.JobStatus))
	return nil
}

// bulkStream is the client side of Edit_BulkAddServer.
type bulkStream struct {
	baseStream
	Elems  []*gripql.GraphElement
	pos    int
	Result *gripql.BulkEditResult
	RecvErrAt int // >=0: Recv fails with a transport error at this position
}

func (b *bulkStream) Recv() (*gripql.GraphElement, error) {
	hyield("h:stream-recv")
	if b.RecvErrAt >= 0 && b.pos == b.RecvErrAt {
		b.pos = len(b.Elems)
		return nil, fmt.Errorf("transport is closing")
	}
	if b.pos >= len(b.Elems) {
		return nil, io.EOF
	}
	e := b.Elems[b.pos]
	b.pos++
	return e, nil
}

func (b *bulkStream) SendAndClose(r *gripql.BulkEditResult) error {
	hyield("h:stream-sendclose")
	b.Result = r
	return nil
}

// submitUnary calls the Submit handler the way the gRPC server does: the
// context of a unary call is cancelled as soon as its handler has returned
// (whatever the handler started in the background must not depend on it).
func (s *simServer) submitUnary(q *gripql.GraphQuery) (*gripql.QueryJob, error) {
	ctx, cancel := context.WithCancel(context.Background())
	job, err := s.Srv.Submit(ctx, q)
	hyield("h:unary-return")
	cancel()
	return job, err
}
