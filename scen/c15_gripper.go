//go:build verif

package scen

import (
	"context"
	"fmt"
	"sort"
	"strings"
	"time"

	"github.com/bmeg/grip/gdbi"
	"github.com/bmeg/grip/gripper"
	"github.com/bmeg/grip/gripql"
	"github.com/bmeg/grip/engine/pipeline"
	"verifsim/gen"
	"verifsim/model"
	"verifsim/simnet"
	"verifsim/simrt"
)

// C15 — a gripper-mapped graph is exactly the graph its mapping describes.
// Generated table sets are served by the real SimpleTableServicer over the
// real DriverPreLoad / DriverCache drivers, reached through simnet (in-process
// GRIPSourceClient, FIFO per stream, seeded latency); a generated mapping; the
// real TabularGraph, its optimizer, client, per-prefix request pipelines and
// ChannelMux; traversals from the C01 generator. Oracle: the graph the mapping
// describes is materialised by harness code into refgraph and the traversal
// must return what refql returns on it. Write calls must be refused.

type tblRow struct {
	ID   string                 `json:"id"`
	Data map[string]interface{} `json:"data"`
}

type vTable struct {
	Name   string   `json:"name"`
	Prefix string   `json:"prefix"`
	Label  string   `json:"label"`
	Rows   []tblRow `json:"rows"`
	Cached bool     `json:"cached,omitempty"` // wrapped in the real DriverCache
}

type eTable struct {
	Name  string   `json:"name"`
	From  string   `json:"from"` // vertex prefix
	To    string   `json:"to"`
	Label string   `json:"label"`
	Rows  []tblRow `json:"rows"` // fields "src" and "dst"
	Cached bool    `json:"cached,omitempty"`
}

type c15W struct {
	Run     RunCfg   `json:"run"`
	VTables []vTable `json:"vertex_tables"`
	ETables []eTable `json:"edge_tables"`
	Prog    []string `json:"prog"`
	LatencyUs int    `json:"latency_us"`
	// Companion: another traversal on the same graph object (same table
	// servicer, same caches): "before-limit1" = V().limit(1) run to the end
	// before the judged traversal starts (its early end cancels its scans);
	// "concurrent" = V() by a second client at the same time
	Companion string `json:"companion,omitempty"`
	Writes  bool     `json:"try_writes,omitempty"`
}

func init() {
	Register(&Scenario{
		Name: "gripper", Prop: "C15",
		Gen:    func(r *Rng, tier string, seed uint64) interface{} { return genC15(r, tier) },
		New:    func() interface{} { return &c15W{} },
		Exec:   func(w interface{}, x *Exec) *Outcome { return execC15(w.(*c15W), x) },
		Shrink: func(w interface{}) []interface{} { return shrinkC15(w.(*c15W)) },
		Real:   []string{"gripper graph/optimizer/client/channel mux/sources", "gripper.SimpleTableServicer, DriverPreLoad, DriverCache", "engine compiler/processors/pipeline", "engine/inspect haslabel"},
		Stub:   []string{"gRPC transport to the table plugin (simnet: in-process GRIPSourceClient)"},
	})
}

func (w *c15W) materialise() *model.GraphData {
	g := &model.GraphData{}
	exists := map[string]bool{}
	for _, t := range w.VTables {
		for _, r := range t.Rows {
			g.V = append(g.V, &model.Vertex{ID: t.Prefix + r.ID, Label: t.Label, Data: model.DeepCopyMap(r.Data)})
			exists[t.Prefix+r.ID] = true
		}
	}
	for _, t := range w.ETables {
		for _, r := range t.Rows {
			src, ok1 := r.Data["src"].(string)
			dst, ok2 := r.Data["dst"].(string)
			if !ok1 || !ok2 || src == "" || dst == "" {
				continue
			}
			g.E = append(g.E, &model.Edge{ID: t.From + src + "-" + t.Label + "-" + t.To + dst, Label: t.Label, From: t.From + src, To: t.To + dst, Data: model.DeepCopyMap(r.Data)})
		}
	}
	return g
}

func genC15(r *Rng, tier string) *c15W {
	companion := ""
	if r.Chance(30) {
		companion = Pick(r, []string{"before-limit1", "concurrent"})
	}
	w := &c15W{Companion: companion, Run: GenRunCfg(r, []int{1, 1, 10, 50}), LatencyUs: []int{0, 0, 50, 5000, 4000000, 60000000}[r.Intn(6)], Writes: r.Chance(10)}
	nv := 1 + r.Intn(3)
	labels := []string{"A", "B", "A"} // several tables may share a label
	prefixes := []string{"P:", "Q:", "R:"}
	ids := map[string][]string{}
	for i := 0; i < nv; i++ {
		t := vTable{Name: fmt.Sprintf("vt%d", i), Prefix: prefixes[i], Label: labels[i], Cached: r.Chance(30)}
		n := r.Intn(6)
		for k := 0; k < n; k++ {
			d := map[string]interface{}{"name": Pick(r, []string{"x", "y", "z"})}
			if r.Chance(60) {
				d["n"] = float64(r.Intn(4))
			}
			t.Rows = append(t.Rows, tblRow{ID: fmt.Sprintf("%d", k), Data: d})
			ids[t.Prefix] = append(ids[t.Prefix], fmt.Sprintf("%d", k))
		}
		w.VTables = append(w.VTables, t)
	}
	ne := r.Intn(4)
	// one label per link table: two link tables with the same label between the
	// same vertex types would describe two edges with one id (ambiguous mapping)
	elabels := []string{"k", "l", "m"}
	for i := 0; i < ne; i++ {
		f := w.VTables[r.Intn(nv)]
		t := w.VTables[r.Intn(nv)]
		et := eTable{Name: fmt.Sprintf("et%d", i), From: f.Prefix, To: t.Prefix, Label: elabels[i%3], Cached: r.Chance(30)}
		n := r.Intn(7)
		seen := map[string]bool{}
		hasStr := false
		for k := 0; k < n; k++ {
			d := map[string]interface{}{"w": float64(k)}
			pickID := func(p string) interface{} {
				switch r.Intn(12) {
				case 0:
					return "" // empty link field
				case 1:
					return nil // missing
				case 2:
					return 7.0 // non-string
				case 3:
					return "404" // row that does not exist
				}
				if len(ids[p]) == 0 {
					return "0"
				}
				return Pick(r, ids[p])
			}
			s, dd := pickID(f.Prefix), pickID(t.Prefix)
			if s != nil {
				d["src"] = s
			}
			if dd != nil {
				d["dst"] = dd
			}
			key := fmt.Sprint(s, "|", dd)
			if seen[key] {
				continue // repeated links collapse to one edge id in the driver; not generated
			}
			seen[key] = true
			if _, ok := s.(string); ok {
				if _, ok2 := dd.(string); ok2 {
					hasStr = true
				}
			}
			et.Rows = append(et.Rows, tblRow{ID: fmt.Sprintf("r%d", k), Data: d})
		}
		if !hasStr {
			// the driver only offers fields that hold a string somewhere: keep the table mappable
			et.Rows = append(et.Rows, tblRow{ID: "rz", Data: map[string]interface{}{"src": "0", "dst": "0", "w": 9.0}})
		}
		w.ETables = append(w.ETables, et)
	}
	// a program over the materialised graph, with the mapping's labels
	g := w.materialise()
	saveV, saveE := gen.VLabels, gen.ELabels
	gen.VLabels, gen.ELabels = []string{"A", "B", "Z"}, []string{"k", "l", "m"}
	p := gen.Program(r, g, gen.ProgOpts{MaxLen: 6, Oracle: true, IndexBias: r.Chance(50), NoNull: !r.Chance(30)})
	dangling := false
	vs := map[string]bool{}
	for _, v := range g.V {
		vs[v.ID] = true
	}
	for _, e := range g.E {
		if !vs[e.From] || !vs[e.To] {
			dangling = true
		}
	}
	if r.Chance(12) && !dangling {
		// a mark/jump loop over the mapped graph: the loop's end-of-round signals
		// travel through the same lookup stages as the rows (judged by refjump).
		// Only over tables whose links all resolve: a lookup of a missing row gets
		// no answer (recorded finding), and a loop signal queued behind it never
		// returns - the loop then hangs with a single missing row, which costs
		// tens of millions of steps per case to establish and says nothing new
		p, _ = gen.LoopProgram(r, g)
	}
	gen.VLabels, gen.ELabels = saveV, saveE
	w.Prog = gen.StmtsJSON(p)
	return w
}

func shrinkC15(w *c15W) []interface{} {
	var out []interface{}
	cp := func() *c15W { n := &c15W{}; jsonClone(w, n); return n }
	for i := len(w.Prog) - 1; i >= 1; i-- {
		n := cp()
		n.Prog = append(append([]string{}, w.Prog[:i]...), w.Prog[i+1:]...)
		out = append(out, n)
	}
	for i := len(w.ETables) - 1; i >= 0; i-- {
		n := cp()
		n.ETables = append(n.ETables[:i], n.ETables[i+1:]...)
		out = append(out, n)
		for k := len(w.ETables[i].Rows) - 1; k >= 0 && len(w.ETables[i].Rows) > 1; k-- {
			n := cp()
			n.ETables[i].Rows = append(n.ETables[i].Rows[:k], n.ETables[i].Rows[k+1:]...)
			out = append(out, n)
		}
	}
	for i := range w.VTables {
		for k := len(w.VTables[i].Rows) - 1; k >= 0; k-- {
			n := cp()
			n.VTables[i].Rows = append(n.VTables[i].Rows[:k], n.VTables[i].Rows[k+1:]...)
			out = append(out, n)
		}
	}
	if w.Companion != "" {
		n := cp()
		n.Companion = ""
		out = append(out, n)
	}
	if w.LatencyUs != 0 || w.Run.Policy != 0 || w.Run.CapDiv != 1 {
		n := cp()
		n.LatencyUs, n.Run.Policy, n.Run.CapDiv, n.Run.StarveIdx, n.Run.StarveSite = 0, 0, 1, 0, ""
		out = append(out, n)
	}
	return out
}

func execC15(w *c15W, x *Exec) *Outcome {
	o := &Outcome{}
	stmts, err := gen.StmtsFromJSON(w.Prog)
	if err != nil {
		o.Inconclusive = "infra:bad program"
		return o
	}
	b, _ := jsonMarshal(w)
	o.Fingerprint = hash64(b)
	o.Count("policy:"+simrt.Policy(w.Run.Policy).String(), 1)
	if w.LatencyUs > 0 {
		o.Count("fault:stream_latency", 1)
	}
	if w.Run.CapDiv > 1 {
		o.Count("fault:buffer_scaling", 1)
	}
	isLoop := false
	for _, st := range stmts {
		switch st.Statement.(type) {
		case *gripql.GraphStatement_Mark, *gripql.GraphStatement_Jump:
			isLoop = true
		}
	}
	if !isLoop && gen.TypeCheckExt(stmts) != gen.WellTyped {
		o.Count("program_outside_model", 1)
		return o
	}
	gd := w.materialise()
	var spec model.Spec
	if isLoop {
		o.Count("program_with_mark_jump_loop", 1)
		spec, _ = model.EvalLoop(model.FromData(gd), stmts, 200000)
		if spec.Err == "" && len(spec.Rows) > 3000 {
			spec.Err = "loop result too large"
		}
	} else {
		spec, _ = model.Eval(model.FromData(gd), stmts)
	}
	if spec.Err != "" {
		o.Inconclusive = "reference: " + spec.Err
		return o
	}
	o.NonTrivial = len(spec.Rows) > 0 || len(spec.Superset) > 0
	cfg := w.Run.Sim()
	if cfg.MaxSteps == 0 {
		cfg.MaxSteps = 3000000
	}
	var rows []string
	closed := false
	var setupErr, compileErr error
	var writeAccepted []string
	netStats := &simnet.Stats{}
	lrng := NewRng(w.Run.SchedSeed, "latency")
	run := func(cfg simrt.Config) BubbleResult {
		rows, closed, writeAccepted = nil, false, nil
		return x.Bubble(cfg, func(s *simrt.Sim) func() bool {
			simrt.Go("client:gripper", func() {
				cachedTables := 0
				drivers := map[string]gripper.Driver{}
				for _, t := range w.VTables {
					data := map[string]*gripper.BaseRow{}
					for _, r := range t.Rows {
						data[r.ID] = &gripper.BaseRow{Key: r.ID, Value: model.DeepCopyMap(r.Data)}
					}
					var d gripper.Driver = gripper.NewDriverPreload(data, map[string]string{})
					_ = t.Cached // see cachedDriver below: DriverCache stays out of the loop
					drivers[t.Name] = d
				}
				for _, t := range w.ETables {
					data := map[string]*gripper.BaseRow{}
					for _, r := range t.Rows {
						data[r.ID] = &gripper.BaseRow{Key: r.ID, Value: model.DeepCopyMap(r.Data)}
					}
					var d gripper.Driver = gripper.NewDriverPreload(data, map[string]string{})
					_ = t.Cached // see cachedDriver below: DriverCache stays out of the loop
					drivers[t.Name] = d
				}
				if cachedTables > 0 {
					simrt.Probe("tables served through DriverCache")
				}
				srv := gripper.NewSimpleTableServer(drivers)
				cl := &simnet.Client{Server: srv, Stats: netStats}
				if w.LatencyUs > 0 {
					cl.Latency = func() time.Duration {
						if w.LatencyUs >= 1000000 {
							// a stalled peer: most messages are quick, one in twelve takes seconds (simulated)
							if lrng.Intn(12) != 0 {
								return time.Duration(lrng.Intn(200)) * time.Microsecond
							}
						}
						return time.Duration(lrng.Intn(w.LatencyUs+1)) * time.Microsecond
					}
				}
				conf := gripper.GraphConfig{Vertices: map[string]gripper.VertexConfig{}, Edges: map[string]gripper.EdgeConfig{}}
				for _, t := range w.VTables {
					conf.Vertices[t.Prefix] = gripper.VertexConfig{Gid: t.Prefix, Label: t.Label, Data: gripper.ElementConfig{Source: "sim", Collection: t.Name}}
				}
				for _, t := range w.ETables {
					conf.Edges[t.Name] = gripper.EdgeConfig{Gid: t.Name, From: t.From, To: t.To, Label: t.Label, Data: gripper.ElementConfig{Source: "sim", Collection: t.Name, FromField: "src", ToField: "dst"}}
				}
				tg, err := gripper.NewTabularGraph(conf, map[string]gripper.GRIPSourceClient{"sim": cl})
				if err != nil {
					setupErr = err
					return
				}
				if w.Writes {
					if tg.AddVertex([]*gdbi.Vertex{{ID: "P:new", Label: "A"}}) == nil {
						writeAccepted = append(writeAccepted, "AddVertex")
					}
					if tg.AddEdge([]*gdbi.Edge{{ID: "x", Label: "k", From: "P:0", To: "P:0"}}) == nil {
						writeAccepted = append(writeAccepted, "AddEdge")
					}
					if tg.DelVertex("P:0") == nil {
						writeAccepted = append(writeAccepted, "DelVertex")
					}
					if tg.DelEdge("x") == nil {
						writeAccepted = append(writeAccepted, "DelEdge")
					}
					ch := make(chan *gdbi.GraphElement)
					close(ch)
					if tg.BulkAdd(ch) == nil {
						writeAccepted = append(writeAccepted, "BulkAdd")
					}
					if tg.AddVertexIndex("A", "name") == nil {
						writeAccepted = append(writeAccepted, "AddVertexIndex")
					}
				}
				pipe, err := tg.Compiler().Compile(stmts, nil)
				if err != nil {
					compileErr = err
					return
				}
				companion := func(q []*gripql.GraphStatement) {
					if cp, err := tg.Compiler().Compile(q, nil); err == nil {
						for range pipeline.Run(context.Background(), cp, x.WorkDir) {
							hyield("h:companion-recv")
							simrt.Progress()
						}
					}
				}
				comp := w.Companion
				if cachedTables > 0 {
					// DriverCache (reached only through the harness adapter, dead code at
					// this commit) is not safe under repeated or concurrent scans of one
					// table on the unchanged tree; that is not what this check claims
					comp = ""
				}
				switch comp {
				case "before-limit1":
					simrt.Probe("companion traversal with limit(1) ran first")
					companion(gen.StmtsOf(gen.V(), gen.Limit(1)))
					sleepSim(1500000) // whatever it left running has time to finish
				case "concurrent":
					simrt.Probe("companion traversal ran concurrently")
					simrt.Go("client:companion", func() { companion(gen.StmtsOf(gen.V())) })
				}
				res := pipeline.Run(context.Background(), pipe, x.WorkDir)
				for {
					hyield("h:client-recv")
					row, ok := <-res
					if !ok {
						closed = true
						break
					}
					rows = append(rows, CanonRow(row))
				}
			})
			return nil
		}, nil)
	}
	res := run(cfg)
	if res.Verdict == simrt.Budget && cfg.Policy != simrt.PolRR {
		cfg.Policy = simrt.PolRR
		res = run(cfg)
	}
	if (res.Verdict == simrt.Deadlock || res.Verdict == simrt.Livelock) && cfg.CapDiv > 1 && len(res.Panics) == 0 && res.Infra == "" {
		// A traversal that never finishes with divided buffer capacities counts
		// only if it is confirmed: unlike C07 this check has no scaled-up
		// workload to confirm with at production constants, so the same
		// workload is run again with the capacities of the code as written and
		// that run decides (its rows are checked too). The hangs seen this way
		// all have a link to a row that does not exist and are the recorded
		// finding (known_findings.json: the order queue fills behind a lookup
		// that gets no answer) reached with fewer lookups because the queue is
		// smaller; at the production constants the same tables need more than
		// 250 queued lookups, which the thorough tier does reach.
		cfg1 := cfg
		cfg1.CapDiv = 1
		res1 := run(cfg1)
		if res1.Verdict == simrt.Done {
			o.Count("hang_with_divided_capacities_not_confirmed_at_production_constants", 1)
			res = res1
		}
	}
	o.Fingerprint ^= x.Stats.TraceHash
	o.Count("simnet_streams", netStats.Streams)
	o.Count("simnet_messages", netStats.Messages)
	names := stmtNames(stmts)
	switch {
	case res.Infra != "":
		o.Inconclusive = "infra:" + res.Infra
	case len(res.Panics) > 0:
		o.Violation = &Violation{Class: "C15/panic", Signature: "C15/panic/" + panicSite(res.Panics[0]), Detail: names + ": " + res.Panics[0]}
	case setupErr != nil:
		o.Violation = &Violation{Signature: "C15/mapping-rejected", Detail: "a valid mapping was rejected: " + setupErr.Error()}
	case len(writeAccepted) > 0:
		o.Violation = &Violation{Signature: "C15/write-accepted/" + strings.Join(writeAccepted, ","), Detail: "write calls on a gripper graph returned success: " + strings.Join(writeAccepted, ",")}
	case compileErr != nil:
		o.Violation = &Violation{Class: "C15/compile-rejected", Signature: "C15/compile-rejected/" + names, Detail: compileErr.Error()}
	case res.Verdict == simrt.Budget:
		o.Inconclusive = "step budget"
	case res.Verdict != simrt.Done || !closed:
		kind := shapeOfTables(w) + "/" + stalledWhere(res.LiveSites)
		o.Violation = &Violation{Class: "C15/never-finishes", Signature: fmt.Sprintf("C15/never-finishes/%s/%s", firstMove(stmts), kind), Detail: fmt.Sprintf("%s: verdict %s closed %v; goroutines left: %v", names, res.Verdict, closed, res.LiveSites)}
	default:
		if d := spec.Check(rows); d != "" {
			kind := "truncation-or-distinct"
			if spec.Exact {
				kind = seqDiffKind(spec.Rows, rows)
			}
			o.Violation = &Violation{Class: "C15/result/" + kind, Signature: "C15/result/" + kind + "/" + names, Detail: fmt.Sprintf("%s over %d vertices/%d edges described by the mapping: %s", names, len(gd.V), len(gd.E), d)}
		}
	}
	if o.Violation != nil && x.IsKnown("C15", o.Violation.Signature) {
		o.KnownHits = append(o.KnownHits, o.Violation.Signature)
	}
	return o
}

func firstMove(stmts []*gripql.GraphStatement) string {
	var l []string
	for _, s := range stmts {
		switch s.Statement.(type) {
		case *gripql.GraphStatement_Out, *gripql.GraphStatement_In, *gripql.GraphStatement_Both, *gripql.GraphStatement_OutE, *gripql.GraphStatement_InE, *gripql.GraphStatement_BothE:
			l = append(l, strings.TrimPrefix(fmt.Sprintf("%T", s.Statement), "*gripql.GraphStatement_"))
		}
	}
	sort.Strings(l)
	if len(l) == 0 {
		return "no-move"
	}
	return l[0]
}

// stalledWhere names the place a traversal that never finishes is stuck at, so
// that the recorded finding (the request-order multiplexer waits for the answer
// to a lookup of a row that does not exist while the requester waits for room in
// the order queue) does not cover any other hang.
func stalledWhere(sites []string) string {
	muxWaits, putWaits := false, false
	for _, s := range sites {
		if strings.Contains(s, "channel_mux.go:runMux:recv") {
			muxWaits = true
		}
		if strings.Contains(s, "channel_mux.go:ChannelMux.Put:send") {
			putWaits = true
		}
	}
	if muxWaits && putWaits {
		return "order-mux-waits-for-an-answer-and-requester-waits-for-the-mux"
	}
	return "elsewhere"
}

func shapeOfTables(w *c15W) string {
	exists := map[string]bool{}
	for _, t := range w.VTables {
		for _, r := range t.Rows {
			exists[t.Prefix+r.ID] = true
		}
	}
	for _, t := range w.ETables {
		for _, r := range t.Rows {
			src, ok1 := r.Data["src"].(string)
			dst, ok2 := r.Data["dst"].(string)
			if ok1 && ok2 && src != "" && dst != "" && (!exists[t.From+src] || !exists[t.To+dst]) {
				return "link-to-a-row-that-does-not-exist"
			}
		}
	}
	return "all-links-resolve"
}

// cachedDriver would put the real gripper.DriverCache behind the table
// servicer. At this commit DriverCache lacks GetFieldLinks (it does not
// implement gripper.Driver and nothing in the repository instantiates it); the
// adapter adds that one method by delegation. It is NOT used: with it, long
// runs on the unchanged tree end in lock-ups inside DriverCache (a scan keeps
// its read lock while it sends rows and while it sleeps, the loader needs the
// write lock per row) and repeated scans return duplicates. That is behaviour
// of code no deployment can reach, so the check claims nothing about it and the
// seeded changes that live in driver_cache.go are listed as out of reach.
type cachedDriver struct{ *gripper.DriverCache }

func (c cachedDriver) GetFieldLinks() (map[string]string, error) { return c.Driver.GetFieldLinks() }
