//go:build verif

package scen

import (
	"context"
	"fmt"
	"os"
	"path/filepath"

	"github.com/bmeg/grip/gripql"
	"verifsim/gen"
	"verifsim/model"
	"verifsim/simkv"
	"verifsim/simrt"
)

// C11, process death — "Completed jobs remain listed, readable and resumable
// after a server restart", where the restart is a process that died in front of
// an arbitrary step of the job store (the job store writes real files; every
// yield site of package jobstorage - file operations, channel operations of
// the serializer pools, lock acquisitions and releases - is a possible point
// of death: with CrashSite="jobstorage/", CrashNth=k the simulated process
// stops in front of the k-th step taken at such a site: what was written
// stays, nothing later happens).
//
// A first crash-free run of the seeded workload counts the steps N taken inside the job store;
// then the same workload (same seed, so the same schedule up to the crash) is
// re-run with the crash in front of operation k for the chosen k in 1..N.
// After each crash a new server is started over the surviving directory and
//   - every job the client had seen COMPLETE (and had not begun to delete) is
//     listed, COMPLETE, has the recorded count, stores exactly the rows of the
//     direct traversal, and resumes (count()) to their number;
//   - every job whose delete had been acknowledged is gone;
//   - every job the restarted server reports COMPLETE — including those the
//     client never saw complete — stores exactly the rows that running its
//     recorded query directly returns, and its count is their number.
// Jobs in flight at the crash may be absent or present; a job whose delete was
// in flight may be absent or present.

type c11cW struct {
	Run    RunCfg           `json:"run"`
	Graph  *model.GraphData `json:"graph"`
	Progs  [][]string       `json:"progs"`
	Delete []bool           `json:"delete"`
	// crash positions in permille of the job-store steps of the crash-free run;
	// empty = every position (bounded)
	CrashAt []int `json:"crash_at"`
}

func init() {
	Register(&Scenario{
		Name: "jobs-process-death", Prop: "C11", Weight: 1,
		Gen:    func(r *Rng, tier string, seed uint64) interface{} { return genC11c(r, tier) },
		New:    func() interface{} { return &c11cW{} },
		Exec:   func(w interface{}, x *Exec) *Outcome { return execC11c(w.(*c11cW), x) },
		Shrink: func(w interface{}) []interface{} { return shrinkC11c(w.(*c11cW)) },
		Real:   []string{"jobstorage (Spool, Stream, Delete, List, Status, NewFSJobStorage reload) on real files", "server job handlers"},
		Stub:   []string{"process death = the simulated process stops in front of a step of the job store; files written so far survive (no power-loss model: the job store never syncs, so nothing is claimed about unsynced data)"},
	})
}

func genC11c(r *Rng, tier string) *c11cW {
	w := &c11cW{Run: GenRunCfg(r, []int{1, 1, 10})}
	maxV := []int{2, 4, 8}[r.Intn(3)]
	w.Graph = gen.Graph(r, gen.GraphOpts{MaxV: maxV, MaxE: maxV * 2})
	n := 1 + r.Intn(3)
	for i := 0; i < n; i++ {
		w.Progs = append(w.Progs, gen.StmtsJSON(deterministicProg(r, w.Graph)))
		w.Delete = append(w.Delete, r.Chance(25))
	}
	if tier != "thorough" || r.Chance(50) {
		for i := 0; i < 8; i++ {
			w.CrashAt = append(w.CrashAt, r.Intn(1001))
		}
		// the end of a job (status file creation and write) is where durability is decided
		w.CrashAt = append(w.CrashAt, 1000-r.Intn(60))
	}
	return w
}

func shrinkC11c(w *c11cW) []interface{} {
	var out []interface{}
	cp := func() *c11cW { n := &c11cW{}; jsonClone(w, n); return n }
	for i := len(w.Progs) - 1; i >= 0 && len(w.Progs) > 1; i-- {
		n := cp()
		n.Progs = append(n.Progs[:i], n.Progs[i+1:]...)
		n.Delete = append(n.Delete[:i], n.Delete[i+1:]...)
		out = append(out, n)
	}
	for i := range w.Delete {
		if w.Delete[i] {
			n := cp()
			n.Delete[i] = false
			out = append(out, n)
		}
	}
	for i := len(w.CrashAt) - 1; i >= 0 && len(w.CrashAt) > 1; i-- {
		n := cp()
		n.CrashAt = append(n.CrashAt[:i], n.CrashAt[i+1:]...)
		out = append(out, n)
	}
	for i := len(w.Graph.E) - 1; i >= 0; i-- {
		n := cp()
		n.Graph.E = append(n.Graph.E[:i], n.Graph.E[i+1:]...)
		out = append(out, n)
	}
	if w.Run.Policy != 0 || w.Run.CapDiv != 1 {
		n := cp()
		n.Run.Policy, n.Run.CapDiv, n.Run.StarveIdx, n.Run.StarveSite = 0, 1, 0, ""
		out = append(out, n)
	}
	return out
}

type c11cJob struct {
	graph        string
	id           string
	prog         []*gripql.GraphStatement
	rows         []string
	done         bool
	deleteBegun  bool
	deleteAcked  bool
}

func execC11c(w *c11cW, x *Exec) *Outcome {
	o := &Outcome{}
	b, _ := jsonMarshal(w)
	o.Fingerprint = hash64(b)
	o.NonTrivial = true
	o.Count("policy:"+simrt.Policy(w.Run.Policy).String(), 1)
	dir := x.WorkDir + "/c11c"

	// one run of the workload with the process dying in front of job-store step k (0 = never)
	type runOut struct {
		jobs    []*c11cJob
		res     BubbleResult
		ioCount int
		site    string
		disk    *simkv.Disk
		setup   error
	}
	run := func(k int) *runOut {
		ro := &runOut{disk: simkv.NewDisk()}
		os.RemoveAll(dir)
		cfg := w.Run.Sim()
		cfg.CrashSite, cfg.CrashNth = "jobstorage/", k
		if cfg.MaxSteps == 0 {
			cfg.MaxSteps = 2000000
		}
		ro.res = x.Bubble(cfg, func(s *simrt.Sim) func() bool {
			var srv *simServer
			s.Passive(func() {
				srv, ro.setup = newSimServer(dir, ro.disk, true)
				if ro.setup != nil {
					return
				}
				// two graphs with the same content; the second name has an upper-case letter and an
				// underscore (the job store keeps a sanitized form of it, "ag-x", as directory
				// name), and sorts before "g" in the job
				// directory, so that a job of the second half of the run can precede a
				// finished one there
				for _, gn := range []string{"g", "Ag_X"} {
					srv.DB.AddGraph(gn)
					g, _ := srv.DB.Graph(gn)
					for _, v := range w.Graph.V {
						g.AddVertex([]*gdbiVertex{toGV(v)})
					}
					for _, e := range w.Graph.E {
						g.AddEdge([]*gdbiVertex{toGE(e)})
					}
				}
				srv.Srv.VerifRefreshGraphMap()
			})
			if ro.setup != nil {
				return nil
			}
			simrt.Go("client:jobs", func() {
				ctx := context.Background()
				for i, pj := range w.Progs {
					p, err := gen.StmtsFromJSON(pj)
					if err != nil {
						continue
					}
					gn := "g"
					if i%2 == 1 {
						gn = "Ag_X"
					}
					ts := &traversalStream{}
					if err := srv.Srv.Traversal(&gripql.GraphQuery{Graph: gn, Query: p}, ts); err != nil {
						continue
					}
					job, err := srv.submitUnary(&gripql.GraphQuery{Graph: gn, Query: p})
					if err != nil || job == nil {
						continue
					}
					jr := &c11cJob{graph: gn, id: job.Id, prog: p, rows: ts.Rows}
					ro.jobs = append(ro.jobs, jr)
					for n := 0; n < 600; n++ {
						st, e := srv.Srv.GetJob(ctx, job)
						if e != nil {
							break
						}
						if st.State == gripql.JobState_COMPLETE {
							jr.done = true
							break
						}
						if st.State == gripql.JobState_ERROR {
							break
						}
						sleepSim(1000 << uint(mini(n, 10)))
					}
					if jr.done && i < len(w.Delete) && w.Delete[i] {
						jr.deleteBegun = true
						if _, err := srv.Srv.DeleteJob(ctx, &gripql.QueryJob{Graph: jr.graph, Id: jr.id}); err == nil {
							jr.deleteAcked = true
						}
					}
				}
			})
			return nil
			}, func(s *simrt.Sim, v simrt.Verdict) {
			ro.ioCount = s.SiteSteps()
			ro.site = s.CrashSite()
			if v == simrt.Crashed {
				// the files as they are at the moment of death: tearing the
				// simulated goroutines down afterwards runs their deferred
				// calls (flushes, closes), which a dead process never does
				os.RemoveAll(dir + ".dead")
				copyTree(dir, dir+".dead")
			}
		})
		return ro
	}

	classify := func(ro *runOut) (string, *Violation) {
		switch {
		case ro.setup != nil:
			return "infra:setup: " + ro.setup.Error(), nil
		case ro.res.Infra != "":
			return "infra:" + ro.res.Infra, nil
		case len(ro.res.Panics) > 0:
			return "", &Violation{Class: "C11/server-death", Signature: "C11/server-death/" + panicSite(ro.res.Panics[0]), Detail: ro.res.Panics[0]}
		case ro.res.Verdict == simrt.Budget:
			return "step budget", nil
		}
		return "", nil
	}

	base := run(0)
	if inc, v := classify(base); inc != "" || v != nil {
		o.Inconclusive, o.Violation = inc, v
		return o
	}
	if base.res.Verdict != simrt.Done {
		o.Violation = &Violation{Class: "C11/stuck", Signature: fmt.Sprintf("C11/%s/%s", base.res.Verdict, blockedSig(base.res.LiveSites)), Detail: fmt.Sprintf("job workload never finished: %v", base.res.LiveSites)}
		return o
	}
	N := base.ioCount
	if N == 0 {
		o.Inconclusive = "no step inside the job store reached"
		return o
	}
	var ks []int
	if len(w.CrashAt) == 0 {
		stride := 1
		if N > 160 {
			stride = N/160 + 1
		}
		for k := 1; k <= N; k += stride {
			ks = append(ks, k)
		}
		for k := maxi(1, N-12); k <= N; k++ {
			ks = append(ks, k)
		}
	} else {
		for _, pm := range w.CrashAt {
			k := 1 + (N-1)*pm/1000
			ks = append(ks, k)
		}
	}
	seen := map[int]bool{}
	for _, k := range ks {
		if seen[k] {
			continue
		}
		seen[k] = true
		ro := run(k)
		if inc, v := classify(ro); inc != "" || v != nil {
			o.Inconclusive, o.Violation = inc, v
			return o
		}
		if ro.res.Verdict != simrt.Crashed {
			// same seed, same schedule: the crash-free run reached N operations
			o.Inconclusive = fmt.Sprintf("infra: crash at job-store step %d of %d did not happen (verdict %s)", k, N, ro.res.Verdict)
			return o
		}
		o.Count("fault:process_death_inside_job_store", 1)
		o.Count("crash_site:"+siteFunc(ro.site), 1)
		if v := checkAfterDeath(x, w, ro.jobs, ro.disk, dir+".dead", k, N, ro.site, o); v != nil {
			o.Violation = v
			break
		}
	}
	if o.Violation != nil && x.IsKnown("C11", o.Violation.Signature) {
		o.KnownHits = append(o.KnownHits, o.Violation.Signature)
	}
	return o
}

func siteFunc(site string) string {
	// "jobstorage/storage.go:(*FSResults).Spool.func1:io#3" -> "Spool.func1"
	parts := splitColon(site)
	if len(parts) >= 2 {
		return parts[1]
	}
	return site
}

func splitColon(s string) []string {
	var out []string
	cur := ""
	for _, c := range s {
		if c == ':' {
			out = append(out, cur)
			cur = ""
			continue
		}
		cur += string(c)
	}
	return append(out, cur)
}

// checkAfterDeath starts a new server over the surviving job directory.
func checkAfterDeath(x *Exec, w *c11cW, jobs []*c11cJob, disk *simkv.Disk, dir string, k, N int, site string, o *Outcome) *Violation {
	var viol *Violation
	where := fmt.Sprintf("process died in front of step %d of %d taken inside the job store (%s)", k, N, site)
	fail := func(sig, detail string) {
		if viol == nil {
			viol = &Violation{Class: "C11/process-death", Signature: "C11/process-death/" + sig, Detail: where + ": " + detail}
		}
	}
	var panicMsg string
	infra := x.PassiveBubble(func() {
		defer func() {
			if r := recover(); r != nil {
				panicMsg = fmt.Sprintf("%v\n%s", r, stackHere())
			}
		}()
		srv, err := newSimServer(dir, disk, true)
		if err != nil {
			fail("restart-fails", err.Error())
			return
		}
		ctx := context.Background()
		listed := map[string]bool{}
		graphOf := map[string]string{}
		for _, gn := range []string{"g", "Ag_X"} {
			ls := &jobListStream{}
			srv.Srv.ListJobs(&gripql.GraphID{Graph: gn}, ls)
			for _, j := range ls.Jobs {
				listed[j.Id] = true
				graphOf[j.Id] = gn
			}
		}
		view := func(id string) []string {
			ts := &traversalStream{}
			srv.Srv.ViewJob(&gripql.QueryJob{Graph: graphOf[id], Id: id}, ts)
			return ts.Rows
		}
		for _, jr := range jobs {
			switch {
			case jr.deleteAcked:
				if listed[jr.id] {
					fail("deleted-job-back", fmt.Sprintf("job %s (%s): its delete had been acknowledged", jr.id, stmtNames(jr.prog)))
				}
			case jr.deleteBegun:
				// in flight at the crash: either
			case jr.done:
				if !listed[jr.id] {
					fail("completed-job-lost", fmt.Sprintf("job %s (%s) had been reported COMPLETE", jr.id, stmtNames(jr.prog)))
					continue
				}
				st, err := srv.Srv.GetJob(ctx, &gripql.QueryJob{Graph: jr.graph, Id: jr.id})
				if err != nil || st.State != gripql.JobState_COMPLETE || int(st.Count) != len(jr.rows) {
					fail("completed-job-status-changed", fmt.Sprintf("job %s (%s): status after restart %v err %v, expected COMPLETE with count %d", jr.id, stmtNames(jr.prog), st, err, len(jr.rows)))
					continue
				}
				if d := model.MultisetDiff(jr.rows, view(jr.id)); d != "" {
					fail("stored-rows-differ/seen-complete", fmt.Sprintf("job %s (%s): direct traversal (expected) vs stored rows after restart (got): %s", jr.id, stmtNames(jr.prog), d))
					continue
				}
				ts := &traversalStream{}
				if err := srv.Srv.ResumeJob(&gripql.ExtendQuery{Graph: jr.graph, SrcId: jr.id, Query: gen.StmtsOf(gen.Count())}, ts); err != nil {
					fail("completed-job-not-resumable", fmt.Sprintf("job %s (%s): %v", jr.id, stmtNames(jr.prog), err))
					continue
				}
				want := []string{model.Canon(map[string]interface{}{"count": float64(len(jr.rows))})}
				if d := model.MultisetDiff(want, ts.Rows); d != "" {
					fail("resume-rows-differ", fmt.Sprintf("job %s (%s) + count(): %s", jr.id, stmtNames(jr.prog), d))
				}
				o.Count("completed_jobs_checked_after_death", 1)
			}
		}
		// whatever the restarted server reports complete must be faithful
		for id := range listed {
			st, err := srv.Srv.GetJob(ctx, &gripql.QueryJob{Graph: graphOf[id], Id: id})
			if err != nil || st == nil {
				fail("listed-job-without-status", fmt.Sprintf("job %s: %v", id, err))
				continue
			}
			if st.State != gripql.JobState_COMPLETE {
				o.Count("probe:job listed but not complete after restart", 1)
				continue
			}
			ts := &traversalStream{}
			if err := srv.Srv.Traversal(&gripql.GraphQuery{Graph: graphOf[id], Query: st.Query}, ts); err != nil {
				fail("listed-job-query-unreadable", fmt.Sprintf("job %s: recorded query fails: %v", id, err))
				continue
			}
			got := view(id)
			if d := model.MultisetDiff(ts.Rows, got); d != "" {
				fail("stored-rows-differ/reported-complete", fmt.Sprintf("job %s (%s) is reported COMPLETE after the restart: direct traversal (expected) vs stored rows (got): %s", id, stmtNames(st.Query), d))
				continue
			}
			if int(st.Count) != len(ts.Rows) {
				fail("count-differs/reported-complete", fmt.Sprintf("job %s (%s): count %d, direct traversal returns %d rows", id, stmtNames(st.Query), st.Count, len(ts.Rows)))
			}
			o.Count("listed_jobs_checked_after_death", 1)
		}
	})
	if panicMsg != "" {
		if panicInHarness(panicMsg) {
			o.Inconclusive = "infra:harness panic after restart: " + panicMsg
			return nil
		}
		return &Violation{Class: "C11/server-death", Signature: "C11/server-death/after-restart/" + panicSite(panicMsg), Detail: where + ": " + panicMsg}
	}
	if infra != "" {
		o.Inconclusive = "infra:" + infra
		return nil
	}
	return viol
}

func copyTree(src, dst string) {
	filepath.Walk(src, func(p string, info os.FileInfo, err error) error {
		if err != nil {
			return nil
		}
		rel, _ := filepath.Rel(src, p)
		t := filepath.Join(dst, rel)
		if info.IsDir() {
			os.MkdirAll(t, 0755)
			return nil
		}
		b, err := os.ReadFile(p)
		if err == nil {
			os.WriteFile(t, b, 0644)
		}
		return nil
	})
}
