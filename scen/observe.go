package scen

import (
	"context"
	"fmt"
	"sort"
	"strings"

	"github.com/bmeg/grip/engine"
	"github.com/bmeg/grip/engine/pipeline"
	"github.com/bmeg/grip/gdbi"
	"verifsim/gen"
	"verifsim/model"
)

// Observation of everything a client can see about a graph database through
// the public read API (lookup, listings, adjacency in both directions with
// label filters, label listings, label-indexed start), rendered as sorted
// "observable = value" lines so that two states can be diffed and the first
// differing observable names the signature of a finding.

type universe struct {
	Graphs  []string
	VIDs    []string
	EIDs    []string
	VLabels []string
	ELabels []string
	HideSchemaGraphs bool
}

func vCanon(v *gdbi.Vertex) string {
	if v == nil {
		return "absent"
	}
	d := v.Data
	if d == nil {
		d = map[string]interface{}{}
	}
	return model.Canon(map[string]interface{}{"gid": v.ID, "label": v.Label, "data": d})
}

func eCanon(e *gdbi.Edge, withData bool) string {
	if e == nil {
		return "absent"
	}
	m := map[string]interface{}{"gid": e.ID, "label": e.Label, "from": e.From, "to": e.To}
	if withData {
		d := e.Data
		if d == nil {
			d = map[string]interface{}{}
		}
		m["data"] = d
	}
	return model.Canon(m)
}

func mvCanon(v *model.Vertex) string {
	if v == nil {
		return "absent"
	}
	d := v.Data
	if d == nil {
		d = map[string]interface{}{}
	}
	return model.Canon(map[string]interface{}{"gid": v.ID, "label": v.Label, "data": d})
}

func meCanon(e *model.Edge, withData bool) string {
	if e == nil {
		return "absent"
	}
	m := map[string]interface{}{"gid": e.ID, "label": e.Label, "from": e.From, "to": e.To}
	if withData {
		d := e.Data
		if d == nil {
			d = map[string]interface{}{}
		}
		m["data"] = d
	}
	return model.Canon(m)
}

func sortedJoin(xs []string) string {
	sort.Strings(xs)
	return "[" + strings.Join(xs, " ") + "]"
}

var labelFilters = [][]string{nil, {"k"}, {"k", "m"}}

func lfName(l []string) string {
	if len(l) == 0 {
		return "any"
	}
	return strings.Join(l, ",")
}

// obs is an ordered list of (observable, value).
type obs struct {
	keys []string
	vals map[string]string
}

func newObs() *obs { return &obs{vals: map[string]string{}} }
func (o *obs) put(k, v string) {
	if _, ok := o.vals[k]; !ok {
		o.keys = append(o.keys, k)
	}
	o.vals[k] = v
}

// diff returns the first observable (in expected order) whose value differs.
func (want *obs) diff(got *obs) (key, w, g string) {
	for _, k := range want.keys {
		if got.vals[k] != want.vals[k] {
			return k, want.vals[k], got.vals[k]
		}
	}
	for _, k := range got.keys {
		if _, ok := want.vals[k]; !ok {
			return k, "<not expected>", got.vals[k]
		}
	}
	return "", "", ""
}

// obsKind strips ids from an observable name: "g1/out(v2,k)" -> "out-neighbours".
func obsKind(key string) string {
	if i := strings.Index(key, "/"); i >= 0 {
		key = key[i+1:]
	}
	if i := strings.Index(key, "("); i >= 0 {
		key = key[:i]
	}
	return key
}

func collectLookups(ch chan gdbi.ElementLookup, f func(e gdbi.ElementLookup) string) []string {
	var out []string
	for e := range ch {
		out = append(out, f(e))
	}
	return out
}

func oneReq(id string) chan gdbi.ElementLookup {
	c := make(chan gdbi.ElementLookup, 1)
	c <- gdbi.ElementLookup{ID: id, Ref: &gdbi.BaseTraveler{}}
	close(c)
	return c
}

// observeReal reads the implementation. Must run with the simulator passive.
func observeReal(db gdbi.GraphDB, u universe, workDir string) *obs {
	o := newObs()
	ctx := context.Background()
	var names []string
	for _, n := range db.ListGraphs() {
		if u.HideSchemaGraphs && strings.HasSuffix(n, "__schema__") {
			continue // schema graphs are the server's own bookkeeping (AddSchema)
		}
		names = append(names, n)
	}
	o.put("graphs", sortedJoin(names))
	for _, gn := range u.Graphs {
		g, err := db.Graph(gn)
		if err != nil {
			o.put(gn+"/exists", "no")
			continue
		}
		o.put(gn+"/exists", "yes")
		for _, id := range u.VIDs {
			o.put(fmt.Sprintf("%s/vertex-lookup(%s)", gn, id), vCanon(g.GetVertex(id, true)))
		}
		for _, id := range u.EIDs {
			o.put(fmt.Sprintf("%s/edge-lookup(%s)", gn, id), eCanon(g.GetEdge(id, true), true))
			o.put(fmt.Sprintf("%s/edge-lookup-noload(%s)", gn, id), eCanon(g.GetEdge(id, false), false))
		}
		var vl []string
		liveVL, liveEL := map[string]bool{}, map[string]bool{}
		for v := range g.GetVertexList(ctx, true) {
			vl = append(vl, vCanon(v))
			if v != nil {
				liveVL[v.Label] = true
			}
		}
		o.put(gn+"/vertex-listing", sortedJoin(vl))
		var el, el2 []string
		for e := range g.GetEdgeList(ctx, true) {
			el = append(el, eCanon(e, true))
			if e != nil {
				liveEL[e.Label] = true
			}
		}
		for e := range g.GetEdgeList(ctx, false) {
			el2 = append(el2, eCanon(e, false))
		}
		o.put(gn+"/edge-listing", sortedJoin(el))
		o.put(gn+"/edge-listing-noload", sortedJoin(el2))
		for _, id := range u.VIDs {
			if g.GetVertex(id, false) == nil {
				continue // adjacency is observable only from an existing vertex
			}
			for _, lf := range labelFilters {
				o.put(fmt.Sprintf("%s/out-neighbours(%s,%s)", gn, id, lfName(lf)), sortedJoin(collectLookups(g.GetOutChannel(ctx, oneReq(id), true, false, lf), func(e gdbi.ElementLookup) string { return vCanon(e.Vertex) })))
				o.put(fmt.Sprintf("%s/in-neighbours(%s,%s)", gn, id, lfName(lf)), sortedJoin(collectLookups(g.GetInChannel(ctx, oneReq(id), true, false, lf), func(e gdbi.ElementLookup) string { return vCanon(e.Vertex) })))
				o.put(fmt.Sprintf("%s/out-edges(%s,%s)", gn, id, lfName(lf)), sortedJoin(collectLookups(g.GetOutEdgeChannel(ctx, oneReq(id), true, false, lf), func(e gdbi.ElementLookup) string { return eCanon(e.Edge, true) })))
				o.put(fmt.Sprintf("%s/in-edges(%s,%s)", gn, id, lfName(lf)), sortedJoin(collectLookups(g.GetInEdgeChannel(ctx, oneReq(id), true, false, lf), func(e gdbi.ElementLookup) string { return eCanon(e.Edge, true) })))
			}
		}
		lv, _ := g.ListVertexLabels()
		le, _ := g.ListEdgeLabels()
		o.put(gn+"/vertex-labels", sortedJoin(append([]string{}, lv...)))
		o.put(gn+"/edge-labels", sortedJoin(append([]string{}, le...)))
		// the label listings may hold stale labels (a recorded finding, masked
		// where it applies); what they may never do is miss the label of a
		// listed element
		o.put(gn+"/listed-vertex-labels-missing-from-label-listing", sortedJoin(missingFrom(liveVL, lv)))
		o.put(gn+"/listed-edge-labels-missing-from-label-listing", sortedJoin(missingFrom(liveEL, le)))
		for _, l := range u.VLabels {
			// the compiled (label index) path
			var rows []string
			pipe, err := g.Compiler().Compile(gen.StmtsOf(gen.V(), gen.HasLabel(l)), nil)
			if err != nil {
				rows = []string{"compile error: " + err.Error()}
			} else {
				man := engine.NewManager(workDir)
				for t := range pipeline.Start(ctx, pipe, man, 10, nil, nil) {
					if t.GetCurrent() != nil {
						rows = append(rows, vCanon(t.GetCurrent()))
					}
				}
				man.Cleanup()
			}
			o.put(fmt.Sprintf("%s/hasLabel-index-start(%s)", gn, l), sortedJoin(rows))
		}
	}
	return o
}

// observeModel renders the same observables from the abstract store.
func observeModel(s *model.Store, u universe) *obs {
	o := newObs()
	o.put("graphs", sortedJoin(s.GraphNames()))
	for _, gn := range u.Graphs {
		g, ok := s.Graphs[gn]
		if !ok {
			o.put(gn+"/exists", "no")
			continue
		}
		o.put(gn+"/exists", "yes")
		for _, id := range u.VIDs {
			o.put(fmt.Sprintf("%s/vertex-lookup(%s)", gn, id), mvCanon(g.V[id]))
		}
		for _, id := range u.EIDs {
			o.put(fmt.Sprintf("%s/edge-lookup(%s)", gn, id), meCanon(g.E[id], true))
			o.put(fmt.Sprintf("%s/edge-lookup-noload(%s)", gn, id), meCanon(g.E[id], false))
		}
		var vl, el, el2 []string
		for _, id := range g.VertexIDs() {
			vl = append(vl, mvCanon(g.V[id]))
		}
		for _, id := range g.EdgeIDs() {
			el = append(el, meCanon(g.E[id], true))
			el2 = append(el2, meCanon(g.E[id], false))
		}
		o.put(gn+"/vertex-listing", sortedJoin(vl))
		o.put(gn+"/edge-listing", sortedJoin(el))
		o.put(gn+"/edge-listing-noload", sortedJoin(el2))
		for _, id := range u.VIDs {
			if g.V[id] == nil {
				continue
			}
			for _, lf := range labelFilters {
				var on, in, oe, ie []string
				for _, e := range g.OutEdges(id, lf) {
					oe = append(oe, meCanon(e, true))
					if v, ok := g.V[e.To]; ok {
						on = append(on, mvCanon(v))
					}
				}
				for _, e := range g.InEdges(id, lf) {
					ie = append(ie, meCanon(e, true))
					if v, ok := g.V[e.From]; ok {
						in = append(in, mvCanon(v))
					}
				}
				o.put(fmt.Sprintf("%s/out-neighbours(%s,%s)", gn, id, lfName(lf)), sortedJoin(on))
				o.put(fmt.Sprintf("%s/in-neighbours(%s,%s)", gn, id, lfName(lf)), sortedJoin(in))
				o.put(fmt.Sprintf("%s/out-edges(%s,%s)", gn, id, lfName(lf)), sortedJoin(oe))
				o.put(fmt.Sprintf("%s/in-edges(%s,%s)", gn, id, lfName(lf)), sortedJoin(ie))
			}
		}
		o.put(gn+"/vertex-labels", sortedJoin(g.VertexLabels()))
		o.put(gn+"/edge-labels", sortedJoin(g.EdgeLabels()))
		o.put(gn+"/listed-vertex-labels-missing-from-label-listing", "[]")
		o.put(gn+"/listed-edge-labels-missing-from-label-listing", "[]")
		for _, l := range u.VLabels {
			var rows []string
			for _, id := range g.VertexIDs() {
				if g.V[id].Label == l {
					rows = append(rows, mvCanon(g.V[id]))
				}
			}
			o.put(fmt.Sprintf("%s/hasLabel-index-start(%s)", gn, l), sortedJoin(rows))
		}
	}
	return o
}

func (o *obs) dropKind(kind string) {
	var keep []string
	for _, k := range o.keys {
		if obsKind(k) == kind {
			delete(o.vals, k)
			continue
		}
		keep = append(keep, k)
	}
	o.keys = keep
}

func missingFrom(live map[string]bool, listing []string) []string {
	in := map[string]bool{}
	for _, l := range listing {
		in[l] = true
	}
	var out []string
	for l := range live {
		if !in[l] {
			out = append(out, l)
		}
	}
	sort.Strings(out)
	return out
}
