package scen

import (
	"fmt"
	"sort"
	"strings"

	"github.com/bmeg/grip/kvindex"
	"verifsim/model"
	"verifsim/simkv"
	"verifsim/simrt"
)

// C09, a writer next to streaming readers — the index queries stream their
// answers through goroutines and the per-term count listing writes recounts
// back; a writer committing documents while a listing is in flight must not
// leave the index in a state that differs from a scan of the live documents.
// One simulated goroutine inserts and removes documents, one or two others
// run the query methods again and again (their answers while the writer is
// active are not judged - they race by design); when all have finished, every
// query is compared with the brute-force scan of the final documents, then a
// few documents are removed (sequentially) and everything is compared again
// (a stale count only shows when it is decremented).

type c09cW struct {
	Run     RunCfg `json:"run"`
	Initial []ixOp `json:"initial"`
	Writer  []ixOp `json:"writer"`
	Readers int    `json:"readers"`
	Rounds  int    `json:"rounds"`
	Tail    []ixOp `json:"tail"`
}

func init() {
	Register(&Scenario{
		Name: "index-concurrent", Prop: "C09", Weight: 1,
		Gen: func(r *Rng, tier string, seed uint64) interface{} {
			w := &c09cW{Run: GenRunCfg(r, []int{1, 10, 1000}), Readers: 1 + r.Intn(2), Rounds: 1 + r.Intn(3)}
			docs := []string{"d1", "d2", "d3", "d4", "d5", "d6"}
			live := map[string]bool{}
			add := func(l *[]ixOp) {
				var free []string
				for _, d := range docs {
					if !live[d] {
						free = append(free, d)
					}
				}
				if len(free) == 0 {
					return
				}
				d := Pick(r, free)
				live[d] = true
				*l = append(*l, ixOp{Op: "addDoc", Doc: d, Value: ixDoc(r)})
			}
			rem := func(l *[]ixOp) {
				var have []string
				for _, d := range docs {
					if live[d] {
						have = append(have, d)
					}
				}
				if len(have) == 0 {
					return
				}
				sort.Strings(have)
				d := Pick(r, have)
				delete(live, d)
				*l = append(*l, ixOp{Op: "removeDoc", Doc: d})
			}
			for i := 0; i < r.Intn(4); i++ {
				add(&w.Initial)
			}
			for i := 0; i < 1+r.Intn(4); i++ {
				if r.Chance(75) {
					add(&w.Writer)
				} else {
					rem(&w.Writer)
				}
			}
			for i := 0; i < r.Intn(3); i++ {
				rem(&w.Tail)
			}
			return w
		},
		New:  func() interface{} { return &c09cW{} },
		Exec: func(w interface{}, x *Exec) *Outcome { return execC09c(w.(*c09cW), x) },
		Shrink: func(wi interface{}) []interface{} {
			w := wi.(*c09cW)
			var out []interface{}
			cp := func() *c09cW { n := &c09cW{}; jsonClone(w, n); return n }
			for _, which := range []string{"tail", "writer", "initial"} {
				l := map[string][]ixOp{"tail": w.Tail, "writer": w.Writer, "initial": w.Initial}[which]
				for i := len(l) - 1; i >= 0; i-- {
					n := cp()
					switch which {
					case "tail":
						n.Tail = append(n.Tail[:i], n.Tail[i+1:]...)
					case "writer":
						n.Writer = append(n.Writer[:i], n.Writer[i+1:]...)
					default:
						n.Initial = append(n.Initial[:i], n.Initial[i+1:]...)
					}
					out = append(out, n)
				}
			}
			if w.Readers > 1 {
				n := cp()
				n.Readers = 1
				out = append(out, n)
			}
			if w.Rounds > 1 {
				n := cp()
				n.Rounds--
				out = append(out, n)
			}
			if w.Run.Policy != 0 || w.Run.CapDiv != 1 {
				n := cp()
				n.Run.Policy, n.Run.CapDiv, n.Run.StarveIdx, n.Run.StarveSite = 0, 1, 0, ""
				out = append(out, n)
			}
			return out
		},
		Real: []string{"kvindex (queries streaming through goroutines, lazy count write-back, AddDoc, RemoveDoc)"},
		Stub: []string{"storage engine (simkv: snapshot views, serialisable Update)"},
	})
}

func execC09c(w *c09cW, x *Exec) *Outcome {
	o := &Outcome{}
	b, _ := jsonMarshal(w)
	o.Fingerprint = hash64(b)
	o.NonTrivial = len(w.Writer) > 0
	o.Count("policy:"+simrt.Policy(w.Run.Policy).String(), 1)
	if w.Run.CapDiv > 1 {
		o.Count("fault:buffer_scaling", 1)
	}
	cfg := w.Run.Sim()
	if cfg.MaxSteps == 0 {
		cfg.MaxSteps = 4000000
	}
	ixExtraWindows, ixStallUs, ixFailCommitDisk = nil, 0, nil
	var viol *Violation
	res := x.Bubble(cfg, func(s *simrt.Sim) func() bool {
		disk := simkv.NewDisk()
		idx := kvindex.NewIndex(disk.Open())
		m := model.NewRefIndex()
		apply := func(op ixOp) {
			switch op.Op {
			case "addDoc":
				if err := idx.AddDoc(op.Doc, model.DeepCopyMap(op.Value)); err == nil {
					m.Docs[op.Doc] = model.DeepCopyMap(op.Value)
				}
			case "removeDoc":
				idx.RemoveDoc(op.Doc)
				delete(m.Docs, op.Doc)
			}
		}
		s.Passive(func() {
			for _, f := range ixFields {
				idx.AddField(f)
				m.Fields[f] = true
			}
			for _, op := range w.Initial {
				apply(op)
			}
		})
		running := 1 + w.Readers
		compare := func(when string) {
			got := ixQueryReal(idx)
			want := ixQueryModel(m)
			keys := make([]string, 0, len(want))
			for k := range want {
				keys = append(keys, k)
			}
			sort.Strings(keys)
			for _, k := range keys {
				if want[k] == "*" || want[k] == got[k] || viol != nil {
					continue
				}
				kind := k[:strings.Index(k, "(")]
				viol = &Violation{Class: "C09/concurrent/query=" + kind, Signature: "C09/concurrent/query=" + kind + "/" + when,
					Detail: fmt.Sprintf("%s, query %s\n  scan of live documents: %s\n  index answered:         %s", when, k, want[k], got[k])}
			}
		}
		finish := func() {
			running--
			if running > 0 {
				return
			}
			// everybody has returned: sequential from here on
			compare("after writer and readers have finished")
			for _, op := range w.Tail {
				apply(op)
			}
			if len(w.Tail) > 0 {
				compare("after removing documents sequentially afterwards")
			}
		}
		simrt.Go("client:writer", func() {
			for _, op := range w.Writer {
				hyield("h:writer-op")
				apply(op)
			}
			finish()
		})
		for i := 0; i < w.Readers; i++ {
			simrt.Go("client:reader", func() {
				for k := 0; k < w.Rounds; k++ {
					ixQueryReal(idx) // answers while the writer runs are not judged
				}
				finish()
			})
		}
		return nil
	}, nil)
	switch {
	case res.Infra != "":
		o.Inconclusive = "infra:" + res.Infra
	case len(res.Panics) > 0:
		o.Violation = &Violation{Signature: "C09/concurrent/panic/" + panicSite(res.Panics[0]), Detail: res.Panics[0]}
	case res.Verdict == simrt.Budget:
		o.Inconclusive = "step budget"
	case res.Verdict != simrt.Done:
		o.Violation = &Violation{Signature: fmt.Sprintf("C09/concurrent/%s", res.Verdict), Detail: fmt.Sprintf("writer or readers never finished: %v", res.LiveSites)}
	default:
		o.Violation = viol
	}
	return o
}
