package scen

import (
	"math"
	"context"
	"encoding/json"
	"fmt"
	"strconv"
	"strings"
	"time"

	"github.com/bmeg/grip/engine/queue"
	"github.com/bmeg/grip/gdbi"
	"github.com/bmeg/grip/gripper"
	"github.com/bmeg/grip/jobstorage"
	"verifsim/simrt"
)

// C13 — internal stream combinators preserve order and multiplicity.
// Each combinator is driven directly with unique integer payloads under the
// scheduler; output sequence must equal input sequence, the output must close
// exactly when the input is exhausted, and no goroutine may be left.

type c13W struct {
	Run       RunCfg `json:"run"`
	Comb      string `json:"comb"` // marshal | unmarshal | roundtrip | mux | batcher | dual | queue
	N         int    `json:"n"`
	Workers   int    `json:"workers,omitempty"`
	Pipes     int    `json:"pipes,omitempty"`
	Assign    []int  `json:"assign,omitempty"`     // mux: pipeline of item i
	PipeBuf   []int  `json:"pipe_buf,omitempty"`   // mux: buffer of each pipeline's channels
	BatchSize int    `json:"batch_size,omitempty"` // batcher
	// batcher: > 0: request i asks for element id i % IDMod on behalf of its own
	// traveler (several travelers converging on one element within a batch)
	IDMod int `json:"id_mod,omitempty"`
	TimeoutUs int    `json:"timeout_us,omitempty"`
	GapsUs    []int  `json:"gaps_us,omitempty"`  // batcher: producer gap before item i (µs, simulated)
	Fanout    []int  `json:"fanout,omitempty"`   // dual: items returned by the loader for request i
	Signals   []int  `json:"signals,omitempty"`  // positions at which a signal traveler is sent
	CloseGap  int    `json:"close_gap_us,omitempty"`
	// serializer pools: positions of items that cannot be encoded (a NaN
	// property) or decoded (a malformed record). What stands for such an item in
	// the output is not specified (the code forwards an empty record); the other
	// items must still come out once each, in input order.
	Bad []int `json:"bad,omitempty"`
	// batcher, mux: the consumer pauses this long (simulated) after every batch
	// or item it takes, so that the output buffer fills (while timeouts fire)
	ConsDelayUs int `json:"cons_delay_us,omitempty"`
}

func init() {
	Register(&Scenario{
		Name: "combinators", Prop: "C13",
		Gen:    func(r *Rng, tier string, seed uint64) interface{} { return genC13(r, tier) },
		New:    func() interface{} { return &c13W{} },
		Exec:   func(w interface{}, x *Exec) *Outcome { return execC13(w.(*c13W), x) },
		Shrink: func(w interface{}) []interface{} { return shrinkC13(w.(*c13W)) },
		Real:   []string{"jobstorage.MarshalStream", "jobstorage.UnmarshalStream", "gripper.ChannelMux", "gdbi.LookupBatcher", "gdbi.DualProcessor", "engine/queue.New"},
		Stub:   []string{"harness producers/consumers/loaders"},
	})
}

func sizesAround(r *Rng, ks ...int) int {
	cands := []int{0, 1, 2, 3}
	for _, k := range ks {
		if k <= 0 {
			continue
		}
		cands = append(cands, k-1, k, k+1, 2*k+1)
	}
	n := cands[r.Intn(len(cands))]
	if n < 0 {
		n = 0
	}
	return n
}

func genC13(r *Rng, tier string) *c13W {
	w := &c13W{Run: GenRunCfg(r, []int{1, 1, 2, 10, 50})}
	w.Comb = []string{"marshal", "unmarshal", "roundtrip", "mux", "batcher", "dual", "queue"}[r.Intn(7)]
	big := 300
	if tier == "thorough" {
		big = 1500
	}
	switch w.Comb {
	case "marshal", "unmarshal", "roundtrip":
		w.Workers = r.Range(1, 8)
		w.N = sizesAround(r, w.Workers, 10*w.Workers/maxi(1, w.Run.CapDiv), 10*w.Workers, 40*w.Workers+3)
		if r.Chance(10) {
			w.N = r.Range(100, big)
		}
		w.Run.SlowSite, w.Run.SlowPct = "serializer.go", []int{0, 5, 30}[r.Intn(3)]
		if r.Chance(30) && w.N > 0 {
			for i := 0; i < 1+r.Intn(3); i++ {
				w.Bad = append(w.Bad, r.Intn(w.N))
			}
		}
	case "mux":
		w.Pipes = r.Range(1, 5)
		q := 50 / maxi(1, w.Run.CapDiv)
		w.N = sizesAround(r, w.Pipes, q, 5*q, 50, 250)
		for i := 0; i < w.N; i++ {
			w.Assign = append(w.Assign, r.Intn(w.Pipes))
		}
		for i := 0; i < w.Pipes; i++ {
			w.PipeBuf = append(w.PipeBuf, []int{0, 0, 1, 5}[r.Intn(4)])
		}
		w.Run.SlowSite, w.Run.SlowPct = "h:pipe", []int{0, 10, 40}[r.Intn(3)]
		if r.Chance(30) {
			// a reader that falls behind by more than the mux's output buffer
			w.ConsDelayUs = []int{50, 2000, 100000}[r.Intn(3)]
		}
	case "batcher":
		w.BatchSize = []int{1, 2, 3, 10, 100}[r.Intn(5)]
		w.TimeoutUs = []int{4, 100, 10000, 5000000}[r.Intn(4)]
		w.N = sizesAround(r, w.BatchSize, 2*w.BatchSize, 100/maxi(1, w.Run.CapDiv))
		if w.N > 400 {
			w.N = 400
		}
		if r.Chance(30) {
			w.IDMod = 1 + r.Intn(4)
		}
		for i := 0; i < w.N; i++ {
			g := 0
			switch r.Intn(4) {
			case 0:
				g = w.TimeoutUs / 8
			case 1:
				g = w.TimeoutUs * 3
			}
			w.GapsUs = append(w.GapsUs, g)
		}
		w.CloseGap = []int{0, w.TimeoutUs * 2}[r.Intn(2)]
		if r.Chance(35) {
			w.ConsDelayUs = []int{w.TimeoutUs / 2, w.TimeoutUs * 2, w.TimeoutUs * 10}[r.Intn(3)]
			// many small batches, so that they outnumber the output buffer
			if r.Chance(60) {
				w.BatchSize = 1 + r.Intn(2)
				w.N = 120 + r.Intn(200)
				w.GapsUs = nil
				for i := 0; i < w.N; i++ {
					g := 0
					if r.Chance(6) {
						g = w.TimeoutUs * 3
					}
					w.GapsUs = append(w.GapsUs, g)
				}
			}
		}
	case "dual":
		w.N = sizesAround(r, 100/maxi(1, w.Run.CapDiv), 10)
		if w.N > 300 {
			w.N = 300
		}
		for i := 0; i < w.N; i++ {
			w.Fanout = append(w.Fanout, r.Intn(4))
			if r.Chance(5) {
				w.Signals = append(w.Signals, i)
			}
		}
		w.Run.SlowSite, w.Run.SlowPct = "h:loader", []int{0, 20}[r.Intn(2)]
	case "queue":
		c := 50 / maxi(1, w.Run.CapDiv)
		w.N = sizesAround(r, c, 2*c, 4*c+7)
		if r.Chance(10) {
			w.N = r.Range(200, big)
		}
	}
	return w
}

func maxi(a, b int) int {
	if a > b {
		return a
	}
	return b
}

func shrinkC13(w *c13W) []interface{} {
	var out []interface{}
	cp := func() *c13W { b, _ := json.Marshal(w); n := &c13W{}; json.Unmarshal(b, n); return n }
	trunc := func(n *c13W, k int) {
		n.N = k
		if len(n.Assign) > k {
			n.Assign = n.Assign[:k]
		}
		if len(n.GapsUs) > k {
			n.GapsUs = n.GapsUs[:k]
		}
		if len(n.Fanout) > k {
			n.Fanout = n.Fanout[:k]
		}
		var sg []int
		for _, s := range n.Signals {
			if s < k {
				sg = append(sg, s)
			}
		}
		n.Signals = sg
		var bd []int
		for _, s := range n.Bad {
			if s < k {
				bd = append(bd, s)
			}
		}
		n.Bad = bd
	}
	for _, k := range []int{w.N / 2, w.N - 1} {
		if k >= 0 && k < w.N {
			n := cp()
			trunc(n, k)
			out = append(out, n)
		}
	}
	if w.Workers > 1 {
		n := cp()
		n.Workers = w.Workers - 1
		out = append(out, n)
	}
	for i := range w.Bad {
		n := cp()
		n.Bad = append(n.Bad[:i], n.Bad[i+1:]...)
		out = append(out, n)
	}
	if w.Run.SlowPct > 0 {
		n := cp()
		n.Run.SlowPct = 0
		out = append(out, n)
	}
	if w.ConsDelayUs > 0 {
		n := cp()
		n.ConsDelayUs = 0
		out = append(out, n)
	}
	if w.Run.Policy != 0 {
		n := cp()
		n.Run.Policy = 0
		out = append(out, n)
	}
	if len(w.Signals) > 0 {
		n := cp()
		n.Signals = nil
		out = append(out, n)
	}
	return out
}

type seqResult struct {
	got      []string
	closed   bool
	afterEnd int // items received after the declared end (never: range ends at close)
}

func trav(i int) gdbi.Traveler {
	return &gdbi.BaseTraveler{Current: &gdbi.DataElement{ID: strconv.Itoa(i), Label: "L", Data: map[string]interface{}{"i": float64(i)}, Loaded: true}}
}

func execC13(w *c13W, x *Exec) *Outcome {
	o := execC13once(w, x)
	if o.Inconclusive == "step budget" && simrt.Policy(w.Run.Policy) != simrt.PolRR {
		// unfair policies may starve a sleeping poller behind a spinner for ever;
		// only the fair policy can decide liveness (DESIGN 2.6)
		b, _ := json.Marshal(w)
		w2 := &c13W{}
		json.Unmarshal(b, w2)
		w2.Run.Policy = int(simrt.PolRR)
		o2 := execC13once(w2, x)
		o2.Count("reran_under_fair_policy", 1)
		for k, v := range o.Counters {
			o2.Count(k, v)
		}
		return o2
	}
	return o
}

func execC13once(w *c13W, x *Exec) *Outcome {
	o := &Outcome{}
	var want, got []string
	closed := false
	inputDoneAtClose := true
	var inputDone bool
	cfg := w.Run.Sim()
	if cfg.MaxSteps == 0 {
		cfg.MaxSteps = 400000 + 4000*w.N
	}
	res := x.Bubble(cfg, func(s *simrt.Sim) func() bool {
		switch w.Comb {
		case "marshal", "unmarshal", "roundtrip":
			bad := map[int]bool{}
			for _, b := range w.Bad {
				bad[b] = true
			}
			if len(bad) > 0 {
				o.Count("fault:unserializable_item", 1)
			}
			for i := 0; i < w.N; i++ {
				if !bad[i] {
					want = append(want, strconv.Itoa(i))
				}
			}
			in := make(chan gdbi.Traveler, 3)
			simrt.Go("client:producer", func() {
				for i := 0; i < w.N; i++ {
					hyield("h:prod-send")
					if bad[i] && w.Comb != "unmarshal" {
						in <- &gdbi.BaseTraveler{Current: &gdbi.DataElement{ID: strconv.Itoa(i), Label: "L", Data: map[string]interface{}{"i": math.NaN()}, Loaded: true}}
						continue
					}
					in <- trav(i)
				}
				hyield("h:prod-close")
				inputDone = true
				close(in)
			})
			switch w.Comb {
			case "marshal":
				out := jobstorage.MarshalStream(in, w.Workers)
				simrt.Go("client:consumer", func() {
					for {
						hyield("h:cons-recv")
						b, ok := <-out
						if !ok {
							break
						}
						t := &gdbi.BaseTraveler{}
						json.Unmarshal(b, t)
						if t.Current != nil {
							got = append(got, t.Current.ID)
						} else {
							got = append(got, "<nil>")
						}
					}
					closed, inputDoneAtClose = true, inputDone
				})
			case "unmarshal":
				bin := make(chan []byte, 2)
				simrt.Go("client:encoder", func() {
					for {
						hyield("h:enc-recv")
						t, ok := <-in
						if !ok {
							break
						}
						b, _ := json.Marshal(t)
						if id, _ := strconv.Atoi(curID(t)); bad[id] && curID(t) == strconv.Itoa(id) {
							b = []byte("{\"Current\": {not json")
						}
						hyield("h:enc-send")
						bin <- b
					}
					hyield("h:enc-close")
					close(bin)
				})
				out := jobstorage.UnmarshalStream(bin, w.Workers)
				simrt.Go("client:consumer", func() {
					for {
						hyield("h:cons-recv")
						t, ok := <-out
						if !ok {
							break
						}
						got = append(got, curID(t))
					}
					closed, inputDoneAtClose = true, inputDone
				})
			case "roundtrip":
				mid := jobstorage.MarshalStream(in, w.Workers)
				out := jobstorage.UnmarshalStream(mid, 1+(w.Workers*3)%5)
				simrt.Go("client:consumer", func() {
					for {
						hyield("h:cons-recv")
						t, ok := <-out
						if !ok {
							break
						}
						got = append(got, curID(t))
					}
					closed, inputDoneAtClose = true, inputDone
				})
			}
		case "mux":
			for i := 0; i < w.N; i++ {
				want = append(want, strconv.Itoa(i))
			}
			simrt.Go("client:mux-driver", func() {
				mux := gripper.NewChannelMux()
				out := mux.GetOutChannel()
				ids := make([]int, w.Pipes)
				for p := 0; p < w.Pipes; p++ {
					pin := make(chan interface{}, w.PipeBuf[p])
					pout := make(chan interface{}, w.PipeBuf[p])
					simrt.Go("h:pipe", func() {
						for {
							hyield("h:pipe-recv")
							v, ok := <-pin
							if !ok {
								break
							}
							hyield("h:pipe-send")
							pout <- v
						}
						hyield("h:pipe-close")
						close(pout)
					})
					ids[p], _ = mux.AddPipeline(pin, pout)
				}
				simrt.Go("client:consumer", func() {
					for {
						hyield("h:cons-recv")
						v, ok := <-out
						if !ok {
							break
						}
						got = append(got, strconv.Itoa(v.(int)))
						if w.ConsDelayUs > 0 {
							time.Sleep(time.Duration(w.ConsDelayUs) * time.Microsecond)
						}
					}
					closed, inputDoneAtClose = true, inputDone
				})
				for i := 0; i < w.N; i++ {
					mux.Put(ids[w.Assign[i]], i)
				}
				inputDone = true
				mux.Close()
			})
		case "batcher":
			for i := 0; i < w.N; i++ {
				want = append(want, strconv.Itoa(i))
			}
			req := make(chan gdbi.ElementLookup, 2)
			simrt.Go("client:producer", func() {
				for i := 0; i < w.N; i++ {
					if w.GapsUs[i] > 0 {
						time.Sleep(time.Duration(w.GapsUs[i]) * time.Microsecond)
					}
					hyield("h:prod-send")
					if w.IDMod > 0 {
						req <- gdbi.ElementLookup{ID: strconv.Itoa(i % w.IDMod), Ref: trav(i)}
					} else {
						req <- gdbi.ElementLookup{ID: strconv.Itoa(i)}
					}
				}
				if w.CloseGap > 0 {
					time.Sleep(time.Duration(w.CloseGap) * time.Microsecond)
				}
				hyield("h:prod-close")
				inputDone = true
				close(req)
			})
			out := gdbi.LookupBatcher(req, w.BatchSize, time.Duration(w.TimeoutUs)*time.Microsecond)
			simrt.Go("client:consumer", func() {
				for {
					hyield("h:cons-recv")
					b, ok := <-out
					if !ok {
						break
					}
					if len(b) == 0 {
						got = append(got, "<empty-batch>")
					}
					if len(b) > w.BatchSize {
						got = append(got, fmt.Sprintf("<batch-of-%d>", len(b)))
					}
					if len(b) < w.BatchSize {
						simrt.Probe("batch flushed below size (timeout or end)")
					}
					if w.ConsDelayUs > 0 {
						// a consumer that is slow because it works on the batch: it
						// still holds the batch while the batcher fills the next ones
						time.Sleep(time.Duration(w.ConsDelayUs) * time.Microsecond)
					}
					for _, e := range b {
						if w.IDMod > 0 && e.Ref != nil && e.Ref.GetCurrent() != nil {
							// a request is identified by the traveler it was made for
							if i, _ := strconv.Atoi(e.Ref.GetCurrent().ID); e.ID == strconv.Itoa(i%w.IDMod) {
								got = append(got, e.Ref.GetCurrent().ID)
							} else {
								got = append(got, fmt.Sprintf("<id %s for traveler %s>", e.ID, e.Ref.GetCurrent().ID))
							}
							continue
						}
						got = append(got, e.ID)
					}
				}
				closed, inputDoneAtClose = true, inputDone
			})
		case "dual":
			sig := map[int]bool{}
			for _, p := range w.Signals {
				sig[p] = true
			}
			for i := 0; i < w.N; i++ {
				if sig[i] {
					want = append(want, fmt.Sprintf("sig%d", i))
					continue
				}
				for k := 0; k < w.Fanout[i]; k++ {
					want = append(want, fmt.Sprintf("%d/%d", i, k))
				}
			}
			req := make(chan gdbi.ElementLookup, 2)
			simrt.Go("client:producer", func() {
				for i := 0; i < w.N; i++ {
					hyield("h:prod-send")
					if sig[i] {
						req <- gdbi.ElementLookup{ID: strconv.Itoa(i), Ref: &gdbi.BaseTraveler{Signal: &gdbi.Signal{ID: i, Dest: "m"}}}
					} else {
						req <- gdbi.ElementLookup{ID: strconv.Itoa(i), Ref: trav(i)}
					}
				}
				hyield("h:prod-close")
				inputDone = true
				close(req)
			})
			loader := func(r gdbi.ElementLookup, load bool) chan interface{} {
				ch := make(chan interface{}, 1)
				i, _ := strconv.Atoi(r.ID)
				simrt.Go("h:loader", func() {
					for k := 0; k < w.Fanout[i]; k++ {
						hyield("h:loader-send")
						ch <- fmt.Sprintf("%d/%d", i, k)
					}
					hyield("h:loader-close")
					close(ch)
				})
				return ch
			}
			deser := func(r gdbi.ElementLookup, d interface{}) gdbi.ElementLookup {
				r.Vertex = &gdbi.Vertex{ID: d.(string)}
				return r
			}
			out := gdbi.DualProcessor(context.Background(), req, true, loader, deser)
			simrt.Go("client:consumer", func() {
				for {
					hyield("h:cons-recv")
					e, ok := <-out
					if !ok {
						break
					}
					if e.IsSignal() {
						got = append(got, "sig"+e.ID)
					} else if e.Vertex != nil {
						got = append(got, e.Vertex.ID)
					} else {
						got = append(got, "<no-vertex>")
					}
				}
				closed, inputDoneAtClose = true, inputDone
			})
		case "queue":
			for i := 0; i < w.N; i++ {
				want = append(want, strconv.Itoa(i))
			}
			var q queue.Queue
			s.Passive(func() {}) // keep the API exercised
			simrt.Go("client:queue-driver", func() {
				q = queue.New()
				in, out := q.GetInput(), q.GetOutput()
				simrt.Go("client:consumer", func() {
					for {
						hyield("h:cons-recv")
						t, ok := <-out
						if !ok {
							break
						}
						got = append(got, curID(t))
					}
					closed, inputDoneAtClose = true, inputDone
				})
				for i := 0; i < w.N; i++ {
					hyield("h:prod-send")
					in <- trav(i)
				}
				hyield("h:prod-close")
				inputDone = true
				close(in)
			})
		}
		return nil
	}, nil)

	o.NonTrivial = w.N >= 2
	o.Fingerprint = hash64([]byte(fmt.Sprintf("%s/%d/%d/%d/%x", w.Comb, w.N, w.Workers+w.Pipes+w.BatchSize, w.Run.CapDiv, x.Stats.TraceHash)))
	o.Count("comb:"+w.Comb, 1)
	o.Count("policy:"+simrt.Policy(w.Run.Policy).String(), 1)
	if w.Run.SlowPct > 0 {
		o.Count("fault:slow_worker_configured", 1)
	}
	if w.Run.CapDiv > 1 {
		o.Count("fault:buffer_scaling", 1)
	}
	if w.ConsDelayUs > 0 {
		o.Count("fault:slow_consumer", 1)
	}
	if res.Infra != "" {
		o.Inconclusive = "infra:" + res.Infra
		return o
	}
	if len(res.Panics) > 0 {
		o.Violation = &Violation{Signature: "C13/" + w.Comb + "/panic/" + panicSite(res.Panics[0]), Detail: res.Panics[0]}
		return o
	}
	switch res.Verdict {
	case simrt.Budget:
		o.Inconclusive = "step budget"
		o.Count("budget:"+w.Comb, 1)
		return o
	case simrt.Deadlock, simrt.Livelock:
		o.Violation = &Violation{Signature: fmt.Sprintf("C13/%s/%s", w.Comb, res.Verdict), Detail: fmt.Sprintf("output never closed / goroutines left: %v; got %d of %d items", res.LiveSites, len(got), len(want))}
		return o
	}
	if !closed {
		o.Violation = &Violation{Signature: "C13/" + w.Comb + "/output-not-closed", Detail: "consumer never saw the output close"}
		return o
	}
	if !inputDoneAtClose {
		o.Violation = &Violation{Signature: "C13/" + w.Comb + "/closed-before-input-exhausted", Detail: "output closed while the producer had not finished"}
		return o
	}
	if len(w.Bad) > 0 {
		// whatever stands for an item that cannot be encoded or decoded is not judged
		var g2 []string
		for _, g := range got {
			if g != "<nil>" {
				g2 = append(g2, g)
			}
		}
		got = g2
	}
	if d := seqDiff(want, got); d != "" {
		o.Violation = &Violation{Signature: "C13/" + w.Comb + "/" + seqDiffKind(want, got), Detail: d}
		return o
	}
	return o
}

func curID(t gdbi.Traveler) string {
	if t == nil {
		return "<nil-traveler>"
	}
	if t.IsSignal() {
		return fmt.Sprintf("sig%d", t.GetSignal().ID)
	}
	if t.GetCurrent() == nil {
		return "<nil>"
	}
	return t.GetCurrent().ID
}

func seqDiffKind(want, got []string) string {
	wm, gm := map[string]int{}, map[string]int{}
	for _, s := range want {
		wm[s]++
	}
	for _, s := range got {
		gm[s]++
	}
	lost, dup := false, false
	for k, n := range wm {
		if gm[k] < n {
			lost = true
		}
		if gm[k] > n {
			dup = true
		}
	}
	for k := range gm {
		if wm[k] == 0 {
			dup = true
		}
	}
	switch {
	case lost && dup:
		return "items-lost-and-duplicated"
	case lost:
		return "items-lost"
	case dup:
		return "items-duplicated-or-invented"
	}
	return "order-changed"
}

func seqDiff(want, got []string) string {
	if len(want) == len(got) {
		same := true
		for i := range want {
			if want[i] != got[i] {
				same = false
				break
			}
		}
		if same {
			return ""
		}
	}
	for i := 0; i < len(want) || i < len(got); i++ {
		var a, b string = "<end>", "<end>"
		if i < len(want) {
			a = want[i]
		}
		if i < len(got) {
			b = got[i]
		}
		if a != b {
			return fmt.Sprintf("first difference at position %d: want %s got %s (want %d items, got %d)", i, a, b, len(want), len(got))
		}
	}
	return ""
}

// panicSite extracts a stable "message@function" token from a recorded panic.
func panicSite(p string) string {
	lines := strings.Split(p, "\n")
	msg := ""
	if len(lines) > 0 {
		msg = lines[0]
		if i := strings.Index(msg, "panic: "); i >= 0 {
			msg = msg[i+7:]
		}
		if len(msg) > 60 {
			msg = msg[:60]
		}
	}
	for _, l := range lines[1:] {
		if strings.HasPrefix(l, "github.com/bmeg/grip/") {
			f := l
			if i := strings.LastIndex(f, "("); i > 0 {
				f = f[:i]
			}
			return msg + "@" + f[len("github.com/bmeg/grip/"):]
		}
	}
	return msg
}
