package scen

import (
	"encoding/json"
	"fmt"
	"math"
	"sort"
	"strings"

	"github.com/bmeg/grip/gripql"
	"verifsim/gen"
	"verifsim/model"
	"verifsim/simrt"
)

// C19 — aggregations summarize exactly the rows they are given.
// aggregate.Process broadcasts every row to one channel per aggregation and
// each aggregation is a goroutine of its own writing to the shared output:
// runs are scheduled by the seeded scheduler with scaled capacities, and every
// aggregation is also run alone (independence of the others in the step).
// Oracle: direct computation over the rows of the same traversal without
// aggregate() (taken from refql).

type aggSpec struct {
	Kind     string    `json:"kind"` // count term histogram percentile field type
	Name     string    `json:"name"`
	Field    string    `json:"field,omitempty"`
	Size     uint32    `json:"size,omitempty"`
	Interval uint32    `json:"interval,omitempty"`
	Percents []float64 `json:"percents,omitempty"`
}

type c19W struct {
	Run   RunCfg           `json:"run"`
	Graph *model.GraphData `json:"graph"`
	Pre   []string         `json:"pre"` // statements before aggregate()
	Aggs  []aggSpec        `json:"aggs"`
}

func init() {
	Register(&Scenario{
		Name: "aggregate", Prop: "C19",
		Gen:    func(r *Rng, tier string, seed uint64) interface{} { return genC19(r, tier) },
		New:    func() interface{} { return &c19W{} },
		Exec:   func(w interface{}, x *Exec) *Outcome { return execC19(w.(*c19W), x) },
		Shrink: func(w interface{}) []interface{} { return shrinkC19(w.(*c19W)) },
		Real:   []string{"engine/core aggregate processor", "jsonpath", "gripql.GetFieldType", "engine/pipeline", "kvgraph"},
		Stub:   []string{"storage engine (simkv)"},
	})
}

func aggValue(r *Rng) (interface{}, bool) {
	switch r.Intn(14) {
	case 0:
		return nil, false // missing
	case 1:
		return nil, true // null
	case 2:
		return r.Chance(50), true
	case 3, 4:
		return Pick(r, []string{"x", "y", "z", "x y"}), true
	case 5:
		return []interface{}{"p", 1.0}, true
	case 6:
		return map[string]interface{}{"k": 1.0}, true
	}
	return []interface{}{-3.0, -1.5, 0.0, 0.5, 1.0, 2.0, 4.0, 7.0, 10.0, 12.5}[r.Intn(10)], true
}

func genC19(r *Rng, tier string) *c19W {
	w := &c19W{Run: GenRunCfg(r, []int{1, 10, 1000})}
	n := []int{0, 1, 2, 5, 12, 30}[r.Intn(6)]
	if r.Chance(5) {
		// more rows than any batch the broadcaster may form
		n = 260 + r.Intn(700)
		if r.Chance(60) {
			// one goroutine of the step (an aggregation, the broadcaster, a
			// feeding stage) falls far behind the others: computing costs nothing
			// in the simulator, so a slow aggregation has to be scheduled slow
			w.Run.Policy = int(simrt.PolStarve)
			w.Run.StarveSite = ""
			w.Run.StarveIdx = r.Intn(16)
		}
	}
	g := &model.GraphData{}
	numericOnly := r.Chance(40)
	for i := 0; i < n; i++ {
		d := map[string]interface{}{}
		if numericOnly {
			d["f"] = []interface{}{-3.0, -1.5, 0.0, 0.5, 1.0, 2.0, 4.0, 7.0, 10.0, 12.5}[r.Intn(10)]
		} else if v, ok := aggValue(r); ok {
			d["f"] = v
		}
		if r.Chance(60) {
			d["s"] = Pick(r, []string{"a", "b", "c", "d", "e"})
		}
		if r.Chance(45) {
			// look-alike values of different kinds: distinct terms, distinct types
			// (only term and type aggregations use this field: whether "4" counts
			// as a number for a histogram is not specified)
			d["m"] = []interface{}{"1", 1.0, true, "true", "4", 4.0, false, "false", "0.5", 0.5}[r.Intn(10)]
		}
		if r.Chance(50) {
			o := map[string]interface{}{}
			for _, k := range []string{"k1", "k2", "k3"} {
				if r.Chance(50) {
					o[k] = 1.0
				}
			}
			d["o"] = o
		}
		g.V = append(g.V, &model.Vertex{ID: fmt.Sprintf("v%d", i), Label: "A", Data: d})
	}
	for i := 0; i < n/2; i++ {
		e := &model.Edge{ID: fmt.Sprintf("e%d", i), Label: Pick(r, []string{"k", "k", "l"}), From: fmt.Sprintf("v%d", r.Intn(n)), To: fmt.Sprintf("v%d", r.Intn(n))}
		if r.Chance(70) {
			e.Data = map[string]interface{}{"f": []interface{}{-3.0, -1.5, 0.0, 0.5, 1.0, 2.0, 4.0, 7.0}[r.Intn(8)], "s": Pick(r, []string{"a", "b", "c"})}
		}
		g.E = append(g.E, e)
	}
	w.Graph = g
	pre := []*gripql.GraphStatement{gen.V()}
	switch r.Intn(6) {
	case 0:
		pre = append(pre, gen.HasLabel("A"))
	case 1:
		pre = append(pre, gen.Out())
	case 2:
		// rows that are edges: on the embedded driver an edge is only loaded
		// when the plan says its properties are used
		pre = []*gripql.GraphStatement{gen.E()}
	case 3:
		pre = append(pre, gen.OutE())
	}
	w.Pre = gen.StmtsJSON(pre)
	k := 1 + r.Intn(4)
	for i := 0; i < k; i++ {
		a := aggSpec{Name: fmt.Sprintf("a%d", i), Field: Pick(r, []string{"f", "f", "s", "nonexistent"})}
		metaField := r.Chance(12) // a header field instead of a property
		switch r.Intn(7) {
		case 0:
			a.Kind, a.Field = "count", ""
		case 1, 2:
			a.Kind = "term"
			a.Size = []uint32{0, 0, 1, 2, 100}[r.Intn(5)]
			if r.Chance(35) {
				a.Field = "m"
			}
			if metaField {
				a.Field = Pick(r, []string{"_label", "_gid"})
			}
		case 3:
			a.Kind = "histogram"
			a.Interval = []uint32{1, 2, 5}[r.Intn(3)]
		case 4:
			a.Kind = "percentile"
			a.Percents = [][]float64{{}, {50}, {0, 25, 50, 75, 100}, {10, 90}}[r.Intn(4)]
		case 5:
			a.Kind, a.Field = "field", Pick(r, []string{"o", "_data"})
		default:
			a.Kind = "type"
			if r.Chance(35) {
				a.Field = "m"
			}
		}
		w.Aggs = append(w.Aggs, a)
	}
	return w
}

func (a aggSpec) proto() *gripql.Aggregate {
	switch a.Kind {
	case "count":
		return &gripql.Aggregate{Name: a.Name, Aggregation: &gripql.Aggregate_Count{Count: &gripql.CountAggregation{}}}
	case "term":
		return &gripql.Aggregate{Name: a.Name, Aggregation: &gripql.Aggregate_Term{Term: &gripql.TermAggregation{Field: a.Field, Size: a.Size}}}
	case "histogram":
		return &gripql.Aggregate{Name: a.Name, Aggregation: &gripql.Aggregate_Histogram{Histogram: &gripql.HistogramAggregation{Field: a.Field, Interval: a.Interval}}}
	case "percentile":
		return &gripql.Aggregate{Name: a.Name, Aggregation: &gripql.Aggregate_Percentile{Percentile: &gripql.PercentileAggregation{Field: a.Field, Percents: a.Percents}}}
	case "field":
		return &gripql.Aggregate{Name: a.Name, Aggregation: &gripql.Aggregate_Field{Field: &gripql.FieldAggregation{Field: a.Field}}}
	}
	return &gripql.Aggregate{Name: a.Name, Aggregation: &gripql.Aggregate_Type{Type: &gripql.TypeAggregation{Field: a.Field}}}
}

func shrinkC19(w *c19W) []interface{} {
	var out []interface{}
	cp := func() *c19W { n := &c19W{}; jsonClone(w, n); return n }
	for i := len(w.Aggs) - 1; i >= 0 && len(w.Aggs) > 1; i-- {
		n := cp()
		n.Aggs = append(n.Aggs[:i], n.Aggs[i+1:]...)
		out = append(out, n)
	}
	if len(w.Graph.V) > 60 {
		// volume cases shrink by halves only
		n := cp()
		n.Graph.V = n.Graph.V[:len(n.Graph.V)/2]
		out = append(out, n)
		n = cp()
		n.Graph.V = n.Graph.V[len(n.Graph.V)/2:]
		out = append(out, n)
	} else {
		for i := len(w.Graph.V) - 1; i >= 0; i-- {
			n := cp()
			n.Graph.V = append(n.Graph.V[:i], n.Graph.V[i+1:]...)
			out = append(out, n)
		}
	}
	if len(w.Graph.E) > 0 {
		n := cp()
		n.Graph.E = nil
		out = append(out, n)
	}
	if w.Run.Policy != 0 || w.Run.CapDiv != 1 {
		n := cp()
		n.Run.Policy, n.Run.CapDiv, n.Run.StarveIdx, n.Run.StarveSite = 0, 1, 0, ""
		out = append(out, n)
	}
	return out
}

type bucket struct {
	Key   interface{}
	Value float64
}

func parseAggRows(rows []string) (map[string][]bucket, string) {
	out := map[string][]bucket{}
	for _, r := range rows {
		var m map[string]map[string]interface{}
		if err := json.Unmarshal([]byte(r), &m); err != nil || m["aggregations"] == nil {
			return nil, "row is not an aggregation row: " + r
		}
		a := m["aggregations"]
		name, _ := a["name"].(string)
		v, ok := a["value"].(float64)
		if !ok {
			v = math.NaN()
		}
		out[name] = append(out[name], bucket{a["key"], v})
	}
	return out, ""
}

func bucketsCanon(bs []bucket) string {
	var s []string
	for _, b := range bs {
		s = append(s, fmt.Sprintf("%s=%g", model.Canon(b.Key), b.Value))
	}
	sort.Strings(s)
	return strings.Join(s, " ")
}

// checkAgg judges the buckets of one aggregation against the input rows.
func checkAgg(a aggSpec, rows []*model.Trav, bs []bucket) string {
	vals := make([]interface{}, 0, len(rows))
	present := make([]bool, 0, len(rows))
	for _, t := range rows {
		v, ok := model.Lookup(t, a.Field)
		vals = append(vals, v)
		present = append(present, ok)
	}
	switch a.Kind {
	case "count":
		if len(bs) != 1 || bs[0].Value != float64(len(rows)) {
			return fmt.Sprintf("count aggregation over %d rows returned %s", len(rows), bucketsCanon(bs))
		}
	case "term":
		freq := map[string]int{}
		for i, v := range vals {
			if !present[i] || v == nil {
				continue
			}
			switch v.(type) {
			case string, float64, bool:
				freq[model.Canon(v)]++
			}
		}
		seen := map[string]bool{}
		for _, b := range bs {
			k := model.Canon(b.Key)
			if seen[k] {
				return "term bucket " + k + " returned twice"
			}
			seen[k] = true
			if freq[k] == 0 || float64(freq[k]) != b.Value {
				return fmt.Sprintf("term bucket %s has value %g, exact frequency is %d", k, b.Value, freq[k])
			}
		}
		want := len(freq)
		if a.Size > 0 && int(a.Size) < want {
			want = int(a.Size)
		}
		if len(bs) != want {
			return fmt.Sprintf("term aggregation with size %d over %d distinct scalar values returned %d buckets (expected %d)", a.Size, len(freq), len(bs), want)
		}
		if a.Size > 0 {
			var all, got []int
			for _, c := range freq {
				all = append(all, c)
			}
			for _, b := range bs {
				got = append(got, int(b.Value))
			}
			sort.Sort(sort.Reverse(sort.IntSlice(all)))
			sort.Sort(sort.Reverse(sort.IntSlice(got)))
			for i := range got {
				if got[i] != all[i] {
					return fmt.Sprintf("term aggregation with size %d did not return the most frequent buckets: frequencies returned %v, the largest are %v", a.Size, got, all[:len(got)])
				}
			}
		}
	case "histogram":
		for _, v := range vals {
			if _, isBool := v.(bool); isBool {
				return "" // whether a boolean counts as the number 0/1 is not documented
			}
		}
		var nums []float64
		for i, v := range vals {
			if f, ok := v.(float64); ok && present[i] {
				nums = append(nums, f)
			}
		}
		iv := float64(a.Interval)
		var sum float64
		for _, b := range bs {
			k, ok := b.Key.(float64)
			if !ok {
				return "histogram bucket key is not a number: " + model.Canon(b.Key)
			}
			if math.Mod(k, iv) != 0 {
				return fmt.Sprintf("histogram bucket %g is not a multiple of the interval %g", k, iv)
			}
			c := 0
			for _, n := range nums {
				if n >= k && n < k+iv {
					c++
				}
			}
			if float64(c) != b.Value {
				return fmt.Sprintf("histogram bucket [%g,%g) has value %g, %d numeric values fall into it", k, k+iv, b.Value, c)
			}
			sum += b.Value
		}
		if sum != float64(len(nums)) {
			return fmt.Sprintf("histogram counts sum to %g, there are %d numeric values", sum, len(nums))
		}
	case "percentile":
		for _, v := range vals {
			if _, isBool := v.(bool); isBool {
				return ""
			}
		}
		var nums []float64
		for i, v := range vals {
			if f, ok := v.(float64); ok && present[i] {
				nums = append(nums, f)
			}
		}
		if len(bs) != len(a.Percents) {
			return fmt.Sprintf("percentile aggregation asked for %d percents returned %d rows", len(a.Percents), len(bs))
		}
		if len(nums) == 0 {
			return ""
		}
		sort.Float64s(nums)
		type pq struct{ p, q float64 }
		var l []pq
		for _, b := range bs {
			p, _ := b.Key.(float64)
			l = append(l, pq{p, b.Value})
		}
		sort.Slice(l, func(i, j int) bool { return l[i].p < l[j].p })
		for i, e := range l {
			if math.IsNaN(e.q) || e.q < nums[0]-1e-9 || e.q > nums[len(nums)-1]+1e-9 {
				return fmt.Sprintf("percentile %g = %g lies outside [min,max] = [%g,%g] of the numeric values", e.p, e.q, nums[0], nums[len(nums)-1])
			}
			if i > 0 && e.q < l[i-1].q-1e-9 {
				return fmt.Sprintf("percentiles decrease: p%g=%g > p%g=%g", l[i-1].p, l[i-1].q, e.p, e.q)
			}
		}
	case "field":
		freq := map[string]int{}
		for i, v := range vals {
			if m, ok := v.(map[string]interface{}); ok && present[i] {
				for k := range m {
					freq[k]++
				}
			}
		}
		got := map[string]float64{}
		for _, b := range bs {
			k, _ := b.Key.(string)
			got[k] += b.Value
		}
		for k, c := range freq {
			if got[k] != float64(c) {
				return fmt.Sprintf("field aggregation: key %q occurs %d times, reported %g", k, c, got[k])
			}
		}
		for k := range got {
			if freq[k] == 0 {
				return fmt.Sprintf("field aggregation reports key %q which no row has", k)
			}
		}
	case "type":
		freq := map[string]int{}
		for i, v := range vals {
			if !present[i] {
				continue
			}
			switch v.(type) {
			case string:
				freq["STRING"]++
			case float64:
				freq["NUMERIC"]++
			case bool:
				freq["BOOL"]++
			}
		}
		got := map[string]float64{}
		for _, b := range bs {
			k, _ := b.Key.(string)
			got[k] += b.Value
		}
		for _, k := range []string{"STRING", "NUMERIC", "BOOL"} {
			if got[k] != float64(freq[k]) {
				return fmt.Sprintf("type aggregation: %d values of type %s, reported %g", freq[k], k, got[k])
			}
		}
	}
	return ""
}

func execC19(w *c19W, x *Exec) *Outcome {
	o := &Outcome{}
	pre, err := gen.StmtsFromJSON(w.Pre)
	if err != nil {
		o.Inconclusive = "infra:bad program"
		return o
	}
	o.Count("policy:"+simrt.Policy(w.Run.Policy).String(), 1)
	if w.Run.CapDiv > 1 {
		o.Count("fault:buffer_scaling", 1)
	}
	// input rows: the traversal without aggregate(), from the reference interpreter
	g := model.FromData(w.Graph)
	var rows []*model.Trav
	st := model.NewState()
	for _, s := range pre {
		nts, ok, errs := model.Step(g, s, rows, st)
		if !ok || errs != "" {
			o.Inconclusive = "reference: cannot compute the input rows"
			return o
		}
		rows = nts
	}
	cfg := w.Run.Sim()
	if cfg.MaxSteps == 0 {
		cfg.MaxSteps = 2000000
	}
	run := func(aggs []aggSpec) (map[string][]bucket, travResult, string) {
		var ps []*gripql.Aggregate
		for _, a := range aggs {
			ps = append(ps, a.proto())
		}
		stmts := append(append([]*gripql.GraphStatement{}, pre...), gen.Aggregate(ps...))
		tr := runTraversal(x, cfg, w.Graph, stmts, travOpts{CancelAfter: -1})
		if tr.Bubble.Verdict == simrt.Budget && cfg.Policy != simrt.PolRR {
			c2 := cfg
			c2.Policy = simrt.PolRR
			saved := cfg
			cfg = c2
			tr = runTraversal(x, cfg, w.Graph, stmts, travOpts{CancelAfter: -1})
			cfg = saved
		}
		bs, perr := parseAggRows(tr.Rows)
		return bs, tr, perr
	}
	kinds := ""
	for _, a := range w.Aggs {
		kinds += a.Kind + ","
		o.Count("agg:"+a.Kind, 1)
	}
	b, _ := jsonMarshal(w)
	o.Fingerprint = hash64(b)
	o.NonTrivial = len(rows) > 0
	judge := func(tr travResult, perr string) bool {
		switch {
		case tr.Bubble.Infra != "":
			o.Inconclusive = "infra:" + tr.Bubble.Infra
		case tr.LoadErr != "":
			o.Inconclusive = "infra:load: " + tr.LoadErr
		case tr.CompileErr != "":
			o.Violation = &Violation{Signature: "C19/compile-rejected", Detail: tr.CompileErr}
		case len(tr.Bubble.Panics) > 0:
			o.Violation = &Violation{Signature: "C19/panic/" + panicSite(tr.Bubble.Panics[0]), Detail: kinds + ": " + tr.Bubble.Panics[0]}
		case tr.Bubble.Verdict == simrt.Budget:
			o.Inconclusive = "step budget"
		case tr.Bubble.Verdict != simrt.Done || !tr.Closed:
			o.Violation = &Violation{Class: "C19/never-finishes", Signature: "C19/never-finishes/" + kinds, Detail: fmt.Sprintf("verdict %s closed %v left %v", tr.Bubble.Verdict, tr.Closed, tr.Bubble.LiveSites)}
		case perr != "":
			o.Violation = &Violation{Signature: "C19/bad-row", Detail: perr}
		default:
			return false
		}
		return true
	}
	together, tr, perr := run(w.Aggs)
	if judge(tr, perr) {
		return o
	}
	o.Fingerprint ^= x.Stats.TraceHash
	for _, a := range w.Aggs {
		if d := checkAgg(a, rows, together[a.Name]); d != "" {
			shape := a.Kind
			if a.Kind == "term" && a.Size > 0 {
				shape = "term(size>0)"
			}
			o.Violation = &Violation{Class: "C19/" + shape, Signature: "C19/" + shape + "/" + d[:mini(len(d), 40)], Detail: fmt.Sprintf("aggregation %+v over %d rows: %s (returned: %s)", a, len(rows), d, bucketsCanon(together[a.Name]))}
			o.Violation.Signature = "C19/" + shape + "/" + aggDefectKind(d)
			return o
		}
	}
	// independence: each aggregation alone returns what it returned in company
	if len(w.Aggs) > 1 {
		for _, a := range w.Aggs {
			alone, tr2, perr2 := run([]aggSpec{a})
			if judge(tr2, perr2) {
				return o
			}
			if a.Kind == "term" && a.Size > 0 {
				continue // which of tied buckets are returned is free
			}
			if bucketsCanon(alone[a.Name]) != bucketsCanon(together[a.Name]) {
				o.Violation = &Violation{Class: "C19/not-independent", Signature: "C19/not-independent/" + a.Kind, Detail: fmt.Sprintf("aggregation %+v alone returned [%s], together with %s it returned [%s]", a, bucketsCanon(alone[a.Name]), kinds, bucketsCanon(together[a.Name]))}
				return o
			}
		}
		o.Count("independence_checked", 1)
	}
	return o
}

func aggDefectKind(d string) string {
	for _, k := range []string{"returned twice", "exact frequency", "distinct scalar values returned", "most frequent", "not a multiple", "numeric values fall", "counts sum", "outside [min,max]", "percentiles decrease", "percents returned", "occurs", "no row has", "values of type", "count aggregation"} {
		if strings.Contains(d, k) {
			return strings.ReplaceAll(k, " ", "-")
		}
	}
	return "other"
}
