package scen

import (
	"time"
	"context"
	"encoding/json"
	"fmt"
	"math"
	"os"
	"path/filepath"
	"sort"
	"strings"

	"github.com/bmeg/grip/engine/pipeline"
	"github.com/bmeg/grip/gdbi"
	"github.com/bmeg/grip/gripql"
	"github.com/bmeg/grip/kvgraph"
	"verifsim/gen"
	"verifsim/model"
	"verifsim/simhooks"
	"verifsim/simkv"
	"verifsim/simrt"
)

// ---------------------------------------------------------------------------
// result rows -> canonical form shared with model.RowOf

func vertexJSON(v *gripql.Vertex) interface{} {
	if v == nil {
		return nil
	}
	d := map[string]interface{}{}
	if v.Data != nil {
		d = v.Data.AsMap()
	}
	return map[string]interface{}{"gid": v.Gid, "label": v.Label, "data": d}
}

func edgeJSON(e *gripql.Edge) interface{} {
	if e == nil {
		return nil
	}
	d := map[string]interface{}{}
	if e.Data != nil {
		d = e.Data.AsMap()
	}
	return map[string]interface{}{"gid": e.Gid, "label": e.Label, "from": e.From, "to": e.To, "data": d}
}

// CanonRow renders a query result row canonically.
func CanonRow(r *gripql.QueryResult) string {
	if r == nil {
		return "<nil-row>"
	}
	switch x := r.Result.(type) {
	case *gripql.QueryResult_Vertex:
		return model.Canon(map[string]interface{}{"vertex": vertexJSON(x.Vertex)})
	case *gripql.QueryResult_Edge:
		return model.Canon(map[string]interface{}{"edge": edgeJSON(x.Edge)})
	case *gripql.QueryResult_Count:
		return model.Canon(map[string]interface{}{"count": float64(x.Count)})
	case *gripql.QueryResult_Render:
		return model.Canon(map[string]interface{}{"render": x.Render.AsInterface()})
	case *gripql.QueryResult_Path:
		p := x.Path.AsSlice()
		if p == nil {
			p = []interface{}{}
		}
		return model.Canon(map[string]interface{}{"path": p})
	case *gripql.QueryResult_Selections:
		m := map[string]interface{}{}
		if x.Selections != nil {
			for k, s := range x.Selections.Selections {
				switch y := s.Result.(type) {
				case *gripql.Selection_Vertex:
					m[k] = map[string]interface{}{"vertex": vertexJSON(y.Vertex)}
				case *gripql.Selection_Edge:
					m[k] = map[string]interface{}{"edge": edgeJSON(y.Edge)}
				default:
					m[k] = nil
				}
			}
		}
		return model.Canon(map[string]interface{}{"selections": m})
	case *gripql.QueryResult_Aggregations:
		a := x.Aggregations
		if a == nil {
			return model.Canon(map[string]interface{}{"aggregations": nil})
		}
		var val interface{} = a.Value
		if math.IsNaN(a.Value) || math.IsInf(a.Value, 0) {
			val = fmt.Sprint(a.Value) // JSON has no NaN
		}
		return model.Canon(map[string]interface{}{"aggregations": map[string]interface{}{"name": a.Name, "key": a.Key.AsInterface(), "value": val}})
	}
	return fmt.Sprintf("<row %T>", r.Result)
}

// ---------------------------------------------------------------------------
// graph loading

func toGV(v *model.Vertex) *gdbi.Vertex {
	return &gdbi.Vertex{ID: v.ID, Label: v.Label, Data: model.DeepCopyMap(v.Data), Loaded: true}
}
func toGE(e *model.Edge) *gdbi.Edge {
	return &gdbi.Edge{ID: e.ID, Label: e.Label, From: e.From, To: e.To, Data: model.DeepCopyMap(e.Data), Loaded: true}
}

// loadKV creates graph `name` on a fresh kvgraph over disk and loads gd.
// Call with the simulator passive (or from a simulated goroutine).
func loadKV(disk *simkv.Disk, name string, gd *model.GraphData) (gdbi.GraphDB, gdbi.GraphInterface, error) {
	db := kvgraph.NewKVGraph(disk.Open())
	if err := db.AddGraph(name); err != nil {
		return nil, nil, err
	}
	g, err := db.Graph(name)
	if err != nil {
		return nil, nil, err
	}
	if len(gd.V) > 0 {
		vs := make([]*gdbi.Vertex, 0, len(gd.V))
		for _, v := range gd.V {
			vs = append(vs, toGV(v))
		}
		if err := g.AddVertex(vs); err != nil {
			return nil, nil, err
		}
	}
	if len(gd.E) > 0 {
		es := make([]*gdbi.Edge, 0, len(gd.E))
		for _, e := range gd.E {
			es = append(es, toGE(e))
		}
		if err := g.AddEdge(es); err != nil {
			return nil, nil, err
		}
	}
	return db, g, nil
}

// ---------------------------------------------------------------------------
// running one traversal under the scheduler

type travOpts struct {
	CancelAfter int // cancel the request context after this many rows (-1: never)
	StopReading bool // after cancelling, the client stops reading (a client that went away)
	DeadlineUs  int  // > 0: the request context carries a deadline this far (simulated) in the future instead of being cancelled by the client; after CancelAfter rows the client waits until the deadline has passed
	WriteAfter  int  // > 0: after this many rows the reading client issues a write call on the same graph (a delete of an absent vertex: exclusive on whatever lock deletes take, no change of state), then goes on reading
	Backend     func(g gdbi.GraphInterface) gdbi.GraphInterface // optional decorator
	Compile     func(g gdbi.GraphInterface, stmts []*gripql.GraphStatement) (gdbi.Pipeline, error)
}

type travResult struct {
	Rows       []string
	Closed     bool // the client saw the result stream end
	CompileErr string
	LoadErr    string
	Bubble     BubbleResult
	TempLeft   []string // temp directories left behind in the work dir
	KVOpen     int64    // temporary stores opened and not closed
	SpawnedBeforeCompileErr int
}

// runTraversal loads gd into kvgraph/simkv (passively), then compiles and runs
// stmts through the production entry point (Compile + pipeline.Run) on a
// simulated client goroutine that drains the result stream.
func runTraversal(x *Exec, cfg simrt.Config, gd *model.GraphData, stmts []*gripql.GraphStatement, o travOpts) travResult {
	var tr travResult
	work := filepath.Join(x.WorkDir, "trav")
	os.RemoveAll(work)
	os.MkdirAll(work, 0755)
	open0, closed0 := simhooks.TempKVOpened.Load(), simhooks.TempKVClosed.Load()
	tr.Bubble = x.Bubble(cfg, func(s *simrt.Sim) func() bool {
		var g gdbi.GraphInterface
		s.Passive(func() {
			disk := simkv.NewDisk()
			_, gi, err := loadKV(disk, "g", gd)
			if err != nil {
				tr.LoadErr = err.Error()
				return
			}
			g = gi
		})
		if tr.LoadErr != "" {
			return nil
		}
		if o.Backend != nil {
			g = o.Backend(g)
		}
		simrt.Go("client:query", func() {
			var pipe gdbi.Pipeline
			var err error
			if o.Compile != nil {
				pipe, err = o.Compile(g, stmts)
			} else {
				pipe, err = g.Compiler().Compile(stmts, nil)
			}
			if err != nil {
				tr.CompileErr = err.Error()
				tr.SpawnedBeforeCompileErr = s.Spawned() - 1
				return
			}
			ctx, cancel := context.WithCancel(context.Background())
			if o.DeadlineUs > 0 {
				ctx, cancel = context.WithTimeout(context.Background(), time.Duration(o.DeadlineUs)*time.Microsecond)
			}
			defer cancel()
			res := pipeline.Run(ctx, pipe, work)
			n := 0
			for {
				hyield("h:client-recv")
				row, ok := <-res
				if !ok {
					tr.Closed = true
					break
				}
				tr.Rows = append(tr.Rows, CanonRow(row))
				n++
				simrt.Progress() // a delivered row is progress (the client may be draining a full buffer on its own)
				if o.WriteAfter > 0 && n == o.WriteAfter {
					simrt.Probe("reading client issued a write mid-stream")
					g.DelVertex("no-such-vertex-c07")
				}
				if o.CancelAfter >= 0 && n == o.CancelAfter {
					if o.DeadlineUs > 0 {
						simrt.Probe("request deadline passed mid-stream")
						sleepSim(2 * o.DeadlineUs) // the deadline expires while the client is away
					} else {
						simrt.Probe("client cancelled mid-stream")
						cancel()
					}
					if o.StopReading {
						return
					}
				}
			}
		})
		return nil
	}, nil)
	if ents, err := os.ReadDir(work); err == nil {
		for _, e := range ents {
			tr.TempLeft = append(tr.TempLeft, e.Name())
		}
	}
	tr.KVOpen = (simhooks.TempKVOpened.Load() - open0) - (simhooks.TempKVClosed.Load() - closed0)
	return tr
}

// blockedSig turns the list of goroutines left alive into a stable signature
// token: the sorted set of distinct "spawn-site@blocked-site" with line numbers
// reduced to file:function-ish granularity (file:line:kind is kept, it is what
// identifies the call site).
func blockedSig(sites []string) string {
	m := map[string]bool{}
	for _, s := range sites {
		if i := strings.Index(s, "@"); i >= 0 {
			s = s[i+1:]
		}
		if strings.HasPrefix(s, "h:") || strings.HasPrefix(s, "client") {
			continue
		}
		m[s] = true
	}
	var out []string
	for k := range m {
		out = append(out, k)
	}
	sort.Strings(out)
	if len(out) > 3 {
		out = out[:3]
	}
	return strings.Join(out, "+")
}

func stmtNames(stmts []*gripql.GraphStatement) string {
	var out []string
	for _, s := range stmts {
		n := fmt.Sprintf("%T", s.Statement)
		n = strings.TrimPrefix(n, "*gripql.GraphStatement_")
		out = append(out, n)
	}
	return strings.Join(out, ".")
}

func jsonClone(in, out interface{}) {
	b, _ := json.Marshal(in)
	json.Unmarshal(b, out)
}

var _ = gen.V
