package scen

import (
	"encoding/json"
	"io"
	"runtime"
	"time"
	stdlog "log"
	"os"

	"github.com/bmeg/grip/gdbi"
	griplog "github.com/bmeg/grip/log"
	"github.com/sirupsen/logrus"
	"verifsim/simrt"
)

var quieted bool

// quiet silences the repository's own chatter (fmt.Printf in jump.go/queue.go,
// logrus, std log) so that worker output stays machine-readable.
func quiet() {
	if quieted {
		return
	}
	quieted = true
	if os.Getenv("VSIM_VERBOSE") != "" {
		return
	}
	if dn, err := os.OpenFile(os.DevNull, os.O_WRONLY, 0); err == nil {
		os.Stdout = dn
	}
	stdlog.SetOutput(io.Discard)
	griplog.GetLogger().SetOutput(io.Discard)
	griplog.GetLogger().SetLevel(logrus.PanicLevel)
}

// hsend / hrecv: harness-side channel operations are scheduler yield points too.
func hyield(site string) { simrt.Yield(site) }

type gdbiVertex = gdbi.DataElement

func jsonMarshal(v interface{}) ([]byte, error) { return json.Marshal(v) }

func runtimeStack(b []byte) int { return runtime.Stack(b, false) }

// sleepSim lets simulated time pass on a simulated goroutine (polling loops).
func sleepSim(us int) {
	simrt.Yield("h:sleep")
	time.Sleep(time.Duration(us) * time.Microsecond)
}

// cleanDir empties a scratch directory (job files of earlier cases must not leak into this one).
func cleanDir(d string) string {
	os.RemoveAll(d)
	os.MkdirAll(d, 0755)
	return d
}

func stackHere() string {
	b := make([]byte, 8192)
	return string(b[:runtime.Stack(b, false)])
}
