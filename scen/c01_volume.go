//go:build verif

package scen

import (
	"fmt"
	"strings"

	"github.com/bmeg/grip/gripql"
	"verifsim/gen"
	"verifsim/model"
	"verifsim/simrt"
)

// C01 volume: the listing scans behind V() and E(), the label-index start and
// the adjacency moves over a graph with more elements than any page, block or
// batch size a scan may use (1 025 - 4 300 vertices and as many edges, ids of
// equal length so that key order is id order). The workload is stored compactly
// (sizes + a graph seed); the graph is rebuilt from it on replay. Same oracle
// as the other C01 scenarios (exact multiset against refql). Runs for a fixed
// share of the seeds.

type c01VolW struct {
	Run   RunCfg   `json:"run"`
	NV    int      `json:"nv"`
	NE    int      `json:"ne"`
	GSeed uint64   `json:"graph_seed"`
	Prog  []string `json:"prog"`
}

func init() {
	Register(&Scenario{
		Name: "listing-volume", Prop: "C01", Every: 50, Offset: 7,
		Gen:    func(r *Rng, tier string, seed uint64) interface{} { return genC01Vol(r) },
		New:    func() interface{} { return &c01VolW{} },
		Exec:   func(w interface{}, x *Exec) *Outcome { return execC01Vol(w.(*c01VolW), x) },
		Shrink: func(w interface{}) []interface{} { return shrinkC01Vol(w.(*c01VolW)) },
		Real:   []string{"engine/core compiler+optimizer+processors", "engine/pipeline (Run, Convert)", "kvgraph (list scans, label index start, adjacency scans)", "kvindex"},
		Stub:   []string{"storage engine (simkv behind kvi.KVInterface)"},
	})
}

func c01VolGraph(w *c01VolW) *model.GraphData {
	r := NewRng(w.GSeed, "c01-volume-graph")
	g := &model.GraphData{}
	for i := 0; i < w.NV; i++ {
		g.V = append(g.V, &model.Vertex{ID: fmt.Sprintf("v%05d", i), Label: Pick(r, []string{"A", "B"})})
	}
	for i := 0; i < w.NE; i++ {
		from := 0
		if w.NV > 0 {
			// a few hubs with many out edges, the rest spread out
			if r.Chance(30) {
				from = r.Intn(3)
			} else {
				from = r.Intn(w.NV)
			}
		}
		to := 0
		if w.NV > 0 {
			to = r.Intn(w.NV)
		}
		g.E = append(g.E, &model.Edge{ID: fmt.Sprintf("e%05d", i), From: fmt.Sprintf("v%05d", from), To: fmt.Sprintf("v%05d", to), Label: Pick(r, []string{"k", "l"})})
	}
	return g
}

func genC01Vol(r *Rng) *c01VolW {
	w := &c01VolW{Run: GenRunCfg(r, []int{1, 1, 10}), GSeed: r.U64()}
	w.NV = []int{1025, 1100, 2049, 2500, 4097, 4300}[r.Intn(6)] + r.Intn(3)
	w.NE = []int{1025, 1100, 2049, 2500, 4097, 4300}[r.Intn(6)] + r.Intn(3)
	var prog []*gripql.GraphStatement
	switch r.Intn(9) {
	case 8:
		// more distinct keys than any in-memory set a distinct step may keep
		w.NV, w.NE = 10002+r.Intn(300), 0
		prog = gen.StmtsOf(gen.V(), gen.Distinct(), gen.Count())
	case 0:
		prog = gen.StmtsOf(gen.V(), gen.Count())
	case 1:
		prog = gen.StmtsOf(gen.E(), gen.Count())
	case 2:
		prog = gen.StmtsOf(gen.V())
	case 3:
		prog = gen.StmtsOf(gen.E())
	case 4:
		prog = gen.StmtsOf(gen.V(), gen.HasLabel("A"), gen.Count())
	case 5:
		prog = gen.StmtsOf(gen.V("v00000", "v00001", "v00002"), gen.OutE(), gen.Count())
	case 6:
		prog = gen.StmtsOf(gen.V("v00000", "v00001", "v00002"), gen.Out())
	default:
		prog = gen.StmtsOf(gen.E(), gen.HasLabel("k"), gen.Count())
	}
	w.Prog = gen.StmtsJSON(prog)
	return w
}

// volume workloads shrink by sizes and schedule knobs only
func shrinkC01Vol(w *c01VolW) []interface{} {
	var out []interface{}
	cp := func() *c01VolW { n := &c01VolW{}; jsonClone(w, n); return n }
	if w.NV > 8 {
		n := cp()
		n.NV = w.NV / 2
		out = append(out, n)
		n = cp()
		n.NV = w.NV - 1
		out = append(out, n)
	}
	if w.NE > 0 {
		n := cp()
		n.NE = w.NE / 2
		out = append(out, n)
		n = cp()
		n.NE = w.NE - 1
		out = append(out, n)
	}
	if w.Run.Policy != 0 || w.Run.CapDiv != 1 {
		n := cp()
		n.Run.Policy, n.Run.StarveIdx, n.Run.StarveSite, n.Run.CapDiv = 0, 0, "", 1
		out = append(out, n)
	}
	return out
}

func execC01Vol(w *c01VolW, x *Exec) *Outcome {
	o := &Outcome{}
	stmts, err := gen.StmtsFromJSON(w.Prog)
	if err != nil {
		o.Inconclusive = "infra:bad program json: " + err.Error()
		return o
	}
	names := stmtNames(stmts)
	o.Count("volume:"+names, 1)
	o.Count("policy:"+simrt.Policy(w.Run.Policy).String(), 1)
	if w.Run.CapDiv > 1 {
		o.Count("fault:buffer_scaling", 1)
	}
	gd := c01VolGraph(w)
	cfg := w.Run.Sim()
	if cfg.MaxSteps == 0 {
		cfg.MaxSteps = 4000000
	}
	spec, _ := model.Eval(model.FromData(gd), stmts)
	if spec.Err != "" {
		o.Inconclusive = "reference: " + spec.Err
		return o
	}
	tr := runTraversal(x, cfg, gd, stmts, travOpts{CancelAfter: -1})
	if tr.Bubble.Verdict == simrt.Budget && simrt.Policy(w.Run.Policy) != simrt.PolRR {
		cfg.Policy = simrt.PolRR
		tr = runTraversal(x, cfg, gd, stmts, travOpts{CancelAfter: -1})
	}
	o.Fingerprint = hash64([]byte(fmt.Sprintf("vol/%d/%d/%d/%s/%d/%x", w.NV, w.NE, w.GSeed, strings.Join(w.Prog, ";"), w.Run.CapDiv, x.Stats.TraceHash)))
	o.NonTrivial = true
	switch {
	case tr.Bubble.Infra != "":
		o.Inconclusive = "infra:" + tr.Bubble.Infra
	case tr.LoadErr != "":
		o.Inconclusive = "infra:load: " + tr.LoadErr
	case tr.CompileErr != "":
		o.Violation = &Violation{Class: "C01/well-typed-rejected", Signature: "C01/well-typed-rejected/" + names, Detail: tr.CompileErr}
	case len(tr.Bubble.Panics) > 0:
		o.Violation = &Violation{Signature: "C01/panic/" + panicSite(tr.Bubble.Panics[0]), Detail: names + ": " + tr.Bubble.Panics[0]}
	case tr.Bubble.Verdict == simrt.Budget:
		o.Inconclusive = "step budget"
	case tr.Bubble.Verdict != simrt.Done || !tr.Closed:
		o.Violation = &Violation{Class: "C01/never-finishes", Signature: "C01/never-finishes/volume/" + names, Detail: fmt.Sprintf("verdict %s, closed %v, left %v", tr.Bubble.Verdict, tr.Closed, tr.Bubble.LiveSites)}
	default:
		if d := spec.Check(tr.Rows); d != "" {
			kind := seqDiffKind(spec.Rows, tr.Rows)
			if len(d) > 600 {
				d = d[:600] + " ..."
			}
			o.Violation = &Violation{Class: "C01/result/" + kind, Signature: "C01/result/" + kind + "/volume/" + names, Detail: fmt.Sprintf("%s on %d vertices/%d edges: %s", names, w.NV, w.NE, d)}
		}
	}
	return o
}
