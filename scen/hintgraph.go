package scen

import (
	"context"

	"github.com/bmeg/grip/engine/core"
	"github.com/bmeg/grip/gdbi"
	"verifsim/simrt"
)

// hintGraph decorates a graph so that it honours the "do not load" hint for
// vertices the way the repository's grids and mongo drivers do (contract
// copied from grids/graph.go:GetVertexChannel: id and label kept, Data empty,
// Loaded=false). kvgraph ignores the hint for vertices, which hides load
// elision mistakes of the planner; this backend makes them observable (C02).
type hintGraph struct {
	gdbi.GraphInterface
}

func newHintGraph(g gdbi.GraphInterface) gdbi.GraphInterface { return &hintGraph{g} }

func (h *hintGraph) Compiler() gdbi.Compiler { return core.NewCompiler(h, core.IndexStartOptimize) }

func strip(v *gdbi.Vertex, load bool) *gdbi.Vertex {
	if v == nil || load {
		return v
	}
	return &gdbi.Vertex{ID: v.ID, Label: v.Label, Data: map[string]interface{}{}, Loaded: false}
}

func (h *hintGraph) GetVertex(key string, load bool) *gdbi.Vertex {
	return strip(h.GraphInterface.GetVertex(key, load), load)
}

func (h *hintGraph) GetVertexList(ctx context.Context, load bool) <-chan *gdbi.Vertex {
	in := h.GraphInterface.GetVertexList(ctx, load)
	if load {
		return in
	}
	out := make(chan *gdbi.Vertex, 1)
	simrt.Go("h:hint-vlist", func() {
		for {
			hyield("h:hint-recv")
			v, ok := <-in
			if !ok {
				break
			}
			hyield("h:hint-send")
			out <- strip(v, false)
		}
		hyield("h:hint-close")
		close(out)
	})
	return out
}

func (h *hintGraph) wrap(in chan gdbi.ElementLookup, load bool) chan gdbi.ElementLookup {
	if load {
		return in
	}
	out := make(chan gdbi.ElementLookup, 1)
	simrt.Go("h:hint-chan", func() {
		for {
			hyield("h:hint-recv")
			e, ok := <-in
			if !ok {
				break
			}
			if e.Vertex != nil {
				e.Vertex = strip(e.Vertex, false)
			}
			hyield("h:hint-send")
			out <- e
		}
		hyield("h:hint-close")
		close(out)
	})
	return out
}

func (h *hintGraph) GetVertexChannel(ctx context.Context, req chan gdbi.ElementLookup, load bool) chan gdbi.ElementLookup {
	return h.wrap(h.GraphInterface.GetVertexChannel(ctx, req, load), load)
}

func (h *hintGraph) GetOutChannel(ctx context.Context, req chan gdbi.ElementLookup, load bool, emitNull bool, edgeLabels []string) chan gdbi.ElementLookup {
	return h.wrap(h.GraphInterface.GetOutChannel(ctx, req, load, emitNull, edgeLabels), load)
}

func (h *hintGraph) GetInChannel(ctx context.Context, req chan gdbi.ElementLookup, load bool, emitNull bool, edgeLabels []string) chan gdbi.ElementLookup {
	return h.wrap(h.GraphInterface.GetInChannel(ctx, req, load, emitNull, edgeLabels), load)
}
