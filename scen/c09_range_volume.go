package scen

import (
	"fmt"

	"github.com/bmeg/grip/kvindex"
	"verifsim/simkv"
	"verifsim/simrt"
)

// C09 (volume): numeric-window queries with the number of distinct terms in the
// window chosen around the (scaled) channel capacity of the query; a query
// that never returns at scaled capacities is confirmed at the production
// capacity with proportionally more terms before it is reported.

type c09vW struct {
	Run   RunCfg `json:"run"`
	Terms int    `json:"terms"` // distinct numeric terms inside the window
	Query string `json:"query"` // range | numbers | termcounts | terms | match
}

func init() {
	Register(&Scenario{
		Name: "query-volume", Prop: "C09", Weight: 1,
		Gen: func(r *Rng, tier string, seed uint64) interface{} {
			w := &c09vW{Run: GenRunCfg(r, []int{1, 10, 100, 1000})}
			w.Query = Pick(r, []string{"range", "numbers", "termcounts", "terms", "match"})
			caps := []int{100, 1000}
			c := caps[r.Intn(2)] / maxi(1, w.Run.CapDiv)
			if c < 1 {
				c = 1
			}
			w.Terms = []int{0, 1, c - 1, c, c + 1, 2*c + 1}[r.Intn(6)]
			if w.Terms < 0 {
				w.Terms = 0
			}
			if w.Terms > 400 {
				w.Terms = 400
			}
			return w
		},
		New:  func() interface{} { return &c09vW{} },
		Exec: func(w interface{}, x *Exec) *Outcome { return execC09v(w.(*c09vW), x) },
		Shrink: func(w interface{}) []interface{} {
			v := w.(*c09vW)
			var out []interface{}
			for _, k := range []int{v.Terms / 2, v.Terms - 1} {
				if k >= 0 && k < v.Terms {
					n := *v
					n.Terms = k
					out = append(out, &n)
				}
			}
			return out
		},
		Real: []string{"kvindex query methods"},
		Stub: []string{"storage engine (simkv)"},
	})
}

func c09vOnce(w *c09vW, x *Exec, rc RunCfg, terms int) (simrt.Verdict, int, BubbleResult) {
	cfg := rc.Sim()
	if cfg.MaxSteps == 0 {
		cfg.MaxSteps = 4000000
	}
	got := 0
	res := x.Bubble(cfg, func(s *simrt.Sim) func() bool {
		var idx *kvindex.KVIndex
		s.Passive(func() {
			idx = kvindex.NewIndex(simkv.NewDisk().Open())
			idx.AddField("n")
			for i := 0; i < terms; i++ {
				idx.AddDoc(fmt.Sprintf("d%d", i), map[string]interface{}{"n": float64(i)*0.001 + 0.5})
			}
		})
		simrt.Go("client:index", func() {
			switch w.Query {
			case "range":
				ch := idx.FieldTermNumberRange("n", 0.25, 1e6)
				for {
					hyield("h:q-recv")
					if _, ok := <-ch; !ok {
						break
					}
					got++
				}
			case "numbers":
				ch := idx.FieldNumbers("n")
				for {
					hyield("h:q-recv")
					if _, ok := <-ch; !ok {
						break
					}
					got++
				}
			case "termcounts":
				ch := idx.FieldTermCounts("n")
				for {
					hyield("h:q-recv")
					if _, ok := <-ch; !ok {
						break
					}
					got++
				}
			case "terms":
				ch := idx.FieldTerms("n")
				for {
					hyield("h:q-recv")
					if _, ok := <-ch; !ok {
						break
					}
					got++
				}
			default:
				got = terms // match is covered by the history scenario
			}
		})
		return nil
	}, nil)
	return res.Verdict, got, res
}

func execC09v(w *c09vW, x *Exec) *Outcome {
	o := &Outcome{NonTrivial: w.Terms > 0}
	o.Fingerprint = hash64([]byte(fmt.Sprintf("%s/%d/%d/%x", w.Query, w.Terms, w.Run.CapDiv, w.Run.SchedSeed)))
	o.Count("volume_query:"+w.Query, 1)
	if w.Run.CapDiv > 1 {
		o.Count("fault:buffer_scaling", 1)
	}
	v, got, res := c09vOnce(w, x, w.Run, w.Terms)
	switch {
	case res.Infra != "":
		o.Inconclusive = "infra:" + res.Infra
	case len(res.Panics) > 0:
		o.Violation = &Violation{Signature: "C09/panic/" + panicSite(res.Panics[0]), Detail: res.Panics[0]}
	case v == simrt.Budget:
		o.Inconclusive = "step budget"
	case v == simrt.Deadlock || v == simrt.Livelock:
		detail := fmt.Sprintf("%s query over %d distinct terms at capacities /%d never returned: %v", w.Query, w.Terms, w.Run.CapDiv, res.LiveSites)
		if w.Run.CapDiv > 1 && !x.Shrinking {
			rc := w.Run
			rc.CapDiv = 1
			rc.MaxSteps = 30000000
			v2, _, r2 := c09vOnce(w, x, rc, w.Terms*w.Run.CapDiv)
			if v2 != simrt.Deadlock && v2 != simrt.Livelock {
				o.Count("unconfirmed_scaled", 1)
				o.Inconclusive = "unconfirmed scaled finding"
				return o
			}
			o.Count("confirmed_at_production_constants", 1)
			detail += fmt.Sprintf("\nCONFIRMED at production capacities with %d distinct terms: %v", w.Terms*w.Run.CapDiv, r2.LiveSites)
		}
		o.Violation = &Violation{Class: "C09/query-never-returns", Signature: "C09/query-never-returns/" + w.Query, Detail: detail}
	case got != w.Terms:
		o.Violation = &Violation{Signature: "C09/volume-count/" + w.Query, Detail: fmt.Sprintf("%s query returned %d entries for %d distinct live terms", w.Query, got, w.Terms)}
	}
	return o
}
