// Package scen holds the simulation scenarios (one file per property) and the
// worker loop that executes seeded cases, minimises failures and writes
// replay files. It is compiled as a test binary (testing/synctest needs one)
// against the instrumented overlay of /repo.
package scen

import (
	"encoding/json"
	"fmt"
	"hash/fnv"
	"os"
	"sort"
	"strings"
	"testing"
	"testing/synctest"
	"time"

	"verifsim/simrt"
)

// Rng is a splitmix64 stream. Every choice of a case derives from VERIF_SEED
// through named substreams, so shrinking one part does not perturb the others.
type Rng struct{ s uint64 }

func NewRng(seed uint64, stream string) *Rng {
	h := fnv.New64a()
	h.Write([]byte(stream))
	r := &Rng{s: seed*0x9e3779b97f4a7c15 ^ h.Sum64()}
	r.U64()
	return r
}
func (r *Rng) U64() uint64 {
	r.s += 0x9e3779b97f4a7c15
	z := r.s
	z = (z ^ (z >> 30)) * 0xbf58476d1ce4e5b9
	z = (z ^ (z >> 27)) * 0x94d049bb133111eb
	return z ^ (z >> 31)
}
func (r *Rng) Intn(n int) int {
	if n <= 1 {
		return 0
	}
	return int(r.U64() % uint64(n))
}
func (r *Rng) Bool() bool         { return r.U64()&1 == 1 }
func (r *Rng) Chance(p int) bool  { return r.Intn(100) < p } // p percent
func (r *Rng) Range(a, b int) int { return a + r.Intn(b-a+1) }
func Pick[T any](r *Rng, xs []T) T { return xs[r.Intn(len(xs))] }

// RunCfg is the schedule and knob part of a case.
type RunCfg struct {
	SchedSeed  uint64 `json:"sched_seed"`
	Policy     int    `json:"policy"`
	CapDiv     int    `json:"cap_div"`
	TimeEvery  int    `json:"time_every"`
	MaxSteps   int    `json:"max_steps,omitempty"`
	StarveSite string `json:"starve_site,omitempty"`
	StarveIdx  int    `json:"starve_idx,omitempty"`
	SlowSite   string `json:"slow_site,omitempty"`
	SlowPct    int    `json:"slow_pct,omitempty"`
}

func (c RunCfg) Sim() simrt.Config {
	return simrt.Config{Seed: c.SchedSeed, Policy: simrt.Policy(c.Policy), CapDiv: c.CapDiv, TimeEvery: c.TimeEvery,
		MaxSteps: c.MaxSteps, StarveSite: c.StarveSite, StarveIdx: c.StarveIdx, SlowSite: c.SlowSite, SlowPct: c.SlowPct}
}

// GenRunCfg draws a schedule configuration (swarm style).
func GenRunCfg(r *Rng, capDivs []int) RunCfg {
	c := RunCfg{SchedSeed: r.U64() >> 1, Policy: r.Intn(int(simrt.NumPolicies)), CapDiv: 1, TimeEvery: []int{4, 8, 16, 32, 64}[r.Intn(5)]}
	if len(capDivs) > 0 {
		c.CapDiv = capDivs[r.Intn(len(capDivs))]
	}
	if simrt.Policy(c.Policy) == simrt.PolStarve {
		switch r.Intn(3) {
		case 0:
			c.StarveSite = "client"
		default:
			c.StarveIdx = r.Intn(14)
		}
	}
	return c
}

// Violation is one property violation found by a run.
type Violation struct {
	Signature string `json:"signature"` // failing input class / call site / history shape
	Detail    string `json:"detail"`
	// Class (optional) is the coarser violation class used while minimising:
	// a candidate reproduces when its Class matches, the reported Signature is
	// the one of the minimised case. Empty = Signature.
	Class string `json:"class,omitempty"`
}

func (v *Violation) class() string {
	if v.Class != "" {
		return v.Class
	}
	return v.Signature
}

// Outcome of executing one case.
type Outcome struct {
	Violation    *Violation
	Inconclusive string // non-empty: the run decided nothing (reason)
	NonTrivial   bool
	Fingerprint  uint64 // distinctness key of (workload, interleaving)
	Counters     map[string]int
	KnownHits    []string
	Sample       interface{} // optional extra material for evidence samples
}

func (o *Outcome) Count(k string, n int) {
	if o.Counters == nil {
		o.Counters = map[string]int{}
	}
	o.Counters[k] += n
}

// Scenario is one family of cases for a property.
type Scenario struct {
	Name   string
	Prop   string
	Weight int
	// Every > 0: the scenario is not drawn at random but runs for every seed
	// with seed % Every == Offset (a fixed share of the seeds: expensive
	// scenarios that must take part in every check, also in the quick tier)
	Every  int
	Offset int // with Every: the residue (seed % Every == Offset)
	Gen    func(r *Rng, tier string, seed uint64) interface{}
	New    func() interface{}
	Exec   func(w interface{}, x *Exec) *Outcome
	Shrink func(w interface{}) []interface{}
	// Real lists components that ran real code, Stub those replaced.
	Real []string
	Stub []string
}

var registry = map[string][]*Scenario{}

func Register(s *Scenario) {
	if s.Weight == 0 {
		s.Weight = 1
	}
	registry[s.Prop] = append(registry[s.Prop], s)
}

// Exec is the execution context handed to a scenario.
type Exec struct {
	T        *testing.T
	Known    []KnownFinding
	Stats    Stats
	WorkDir  string
	Replay   bool
	// Shrinking is set while candidates are evaluated by the minimiser:
	// scenarios may skip expensive confirmation steps there (the minimised
	// case is executed once more with Shrinking off before it is reported).
	Shrinking bool
	bubbleNo  int
}

type Stats struct {
	Steps     int
	SimTime   time.Duration
	Bubbles   int
	States    int
	Spawned   int
	MaxParked int
	TimeAdv   int
	TraceHash uint64
	Probes    map[string]int
}

// KnownFinding mirrors an entry of /verif/known_findings.json.
type KnownFinding struct {
	Property  string `json:"property"`
	Signature string `json:"signature"`
	Status    string `json:"status"` // known | fixed
	Commit    string `json:"commit,omitempty"`
	What      string `json:"what"`
}

// IsKnown reports whether a signature is listed as a known (unrepaired) finding.
func (x *Exec) IsKnown(prop, sig string) bool {
	for _, k := range x.Known {
		if k.Status == "known" && k.Property == prop && sigMatch(k.Signature, sig) {
			return true
		}
	}
	return false
}

// sigMatch: '*' in a known-finding pattern matches any run of characters.
func sigMatch(pat, sig string) bool {
	parts := strings.Split(pat, "*")
	if len(parts) == 1 {
		return pat == sig
	}
	if !strings.HasPrefix(sig, parts[0]) {
		return false
	}
	sig = sig[len(parts[0]):]
	for i := 1; i < len(parts)-1; i++ {
		j := strings.Index(sig, parts[i])
		if j < 0 {
			return false
		}
		sig = sig[j+len(parts[i]):]
	}
	return strings.HasSuffix(sig, parts[len(parts)-1])
}

// BubbleResult is what the scheduler observed in one bubble.
type BubbleResult struct {
	Verdict   simrt.Verdict
	Panics    []string
	Unreg     []string
	LiveSites []string // goroutines still alive when the run ended (before kill)
	Steps     int
	Abandoned int
	Infra     string // infrastructure failure inside the bubble
}

// Bubble runs body inside a fresh synctest bubble under a new simulation.
// body starts the workload with simrt.Go and returns the `done` predicate (nil
// = until every simulated goroutine has exited); the scheduler then runs.
// after (optional) runs on the root goroutine when the scheduler has stopped,
// before tear-down.
func (x *Exec) Bubble(cfg simrt.Config, body func(s *simrt.Sim) func() bool, after func(s *simrt.Sim, v simrt.Verdict)) BubbleResult {
	var res BubbleResult
	x.bubbleNo++
	fin := make(chan struct{})
	// synctest.Test calls t.FailNow (= runtime.Goexit) on the calling goroutine
	// when the bubble was marked failed (the race detector does that); run it
	// on a goroutine of its own so that the worker loop survives.
	go func() {
		defer close(fin)
		defer func() {
			if r := recover(); r != nil {
				msg := fmt.Sprint(r)
				if strings.Contains(msg, "deadlock: main bubble goroutine has exited") {
					return // abandoned goroutines of a deadlocked or killed run
				}
				res.Infra = "bubble panic: " + msg
			}
		}()
		synctest.Test(x.T, func(t *testing.T) {
			start := time.Now()
			s := simrt.New(cfg)
			defer s.Close()
			done := body(s)
			res.Verdict = s.Run(done)
			res.LiveSites = s.LiveSites()
			if after != nil {
				after(s, res.Verdict)
			}
			res.Abandoned = s.Kill()
			res.Panics = append(res.Panics, s.Panics...)
			res.Unreg = append(res.Unreg, s.Unreg...)
			res.Steps = s.Steps
			x.Stats.Steps += s.Steps
			x.Stats.SimTime += time.Since(start)
			x.Stats.Bubbles++
			x.Stats.States += s.DistinctStates()
			x.Stats.Spawned += s.Spawned()
			x.Stats.TimeAdv += s.TimeAdv
			if s.MaxParked > x.Stats.MaxParked {
				x.Stats.MaxParked = s.MaxParked
			}
			x.Stats.TraceHash = x.Stats.TraceHash*1099511628211 ^ s.TraceHash()
			for k, v := range s.Probes() {
				if x.Stats.Probes == nil {
					x.Stats.Probes = map[string]int{}
				}
				x.Stats.Probes[k] += v
			}
		})
	}()
	<-fin
	// a panic whose innermost frame is harness code is the harness's fault:
	// infrastructure failure, never a violation
	var kept []string
	for _, p := range res.Panics {
		if panicInHarness(p) {
			if res.Infra == "" {
				res.Infra = "harness panic: " + p
			}
			continue
		}
		kept = append(kept, p)
	}
	res.Panics = kept
	if len(res.Unreg) > 0 && res.Infra == "" {
		res.Infra = "yield from a goroutine the simulator did not start at " + strings.Join(res.Unreg, ",")
	}
	return res
}

// PassiveBubble runs f on the root goroutine of a bubble with the simulator
// switched off (fake clock, plain goroutines): fast sequential set-up,
// histories without schedule dependence.
func (x *Exec) PassiveBubble(f func()) (infra string) {
	fin := make(chan struct{})
	go func() {
		defer close(fin)
		defer func() {
			if r := recover(); r != nil {
				msg := fmt.Sprint(r)
				if strings.Contains(msg, "deadlock: main bubble goroutine has exited") {
					return
				}
				infra = "bubble panic: " + msg
			}
		}()
		synctest.Test(x.T, func(t *testing.T) {
			start := time.Now()
			f()
			x.Stats.SimTime += time.Since(start)
			x.Stats.Bubbles++
		})
	}()
	<-fin
	return infra
}

// ---------------------------------------------------------------------------
// replay files

type ReplayFile struct {
	Property  string          `json:"property"`
	Scenario  string          `json:"scenario"`
	Seed      uint64          `json:"seed"`
	Signature string          `json:"signature"`
	Detail    string          `json:"detail"`
	Workload  json.RawMessage `json:"workload"`
	Minimised bool            `json:"minimised"`
	Shrinks   int             `json:"shrink_steps"`
	TraceHash string          `json:"trace_hash"`
	Tier      string          `json:"tier"`
	Note      string          `json:"note,omitempty"`
}

func hash64(b []byte) uint64 {
	h := fnv.New64a()
	h.Write(b)
	return h.Sum64()
}

// ---------------------------------------------------------------------------
// worker protocol (one JSON object per line on VSIM_OUT)

type RunRecord struct {
	Kind       string         `json:"kind"` // run | violation | summary | infra | hash
	Hash       string         `json:"hash,omitempty"`
	Seed       uint64         `json:"seed,omitempty"`
	Scenario   string         `json:"scenario,omitempty"`
	Signature  string         `json:"signature,omitempty"`
	Detail     string         `json:"detail,omitempty"`
	Replay     string         `json:"replay,omitempty"`
	Known      bool           `json:"known,omitempty"`
	Infra      string         `json:"infra,omitempty"`
	Summary    *WorkerSummary `json:"summary,omitempty"`
}

type WorkerSummary struct {
	Runs          int                `json:"runs"`
	Inconclusive  map[string]int     `json:"inconclusive"`
	NonTrivial    int                `json:"nontrivial"`
	Fingerprints  []uint64           `json:"fingerprints"`
	Steps         int64              `json:"steps"`
	SimTimeNs     int64              `json:"sim_time_ns"`
	Bubbles       int                `json:"bubbles"`
	States        int64              `json:"states"`
	Spawned       int64              `json:"spawned"`
	Counters      map[string]int     `json:"counters"`
	Probes        map[string]int     `json:"probes"`
	ByScenario    map[string]int     `json:"by_scenario"`
	ByPolicy      map[string]int     `json:"by_policy"`
	KnownHits     map[string]int     `json:"known_hits"`
	Samples       []json.RawMessage  `json:"samples"`
	Interleavings []uint64           `json:"interleavings"`
	WallS         float64            `json:"wall_s"`
	Real          []string           `json:"real"`
	Stub          []string           `json:"stub"`
}

func envInt(k string, d int) int {
	v := os.Getenv(k)
	if v == "" {
		return d
	}
	var n int
	fmt.Sscan(v, &n)
	return n
}

func envU64(k string, d uint64) uint64 {
	v := os.Getenv(k)
	if v == "" {
		return d
	}
	var n uint64
	fmt.Sscan(v, &n)
	return n
}

func loadKnown() []KnownFinding {
	p := os.Getenv("VSIM_KNOWN")
	if p == "" {
		return nil
	}
	b, err := os.ReadFile(p)
	if err != nil {
		return nil
	}
	var f struct {
		Findings []KnownFinding `json:"findings"`
	}
	json.Unmarshal(b, &f)
	return f.Findings
}

func pickScenario(prop string, seed uint64) *Scenario {
	ss := registry[prop]
	if len(ss) == 0 {
		return nil
	}
	only := os.Getenv("VSIM_SCENARIO")
	if only != "" {
		for _, s := range ss {
			if s.Name == only {
				return s
			}
		}
		return nil
	}
	tot := 0
	for _, s := range ss {
		if s.Every > 0 {
			if (seed%1000000)%uint64(s.Every) == uint64(s.Offset) { // position within the seed block, whatever VERIF_SEED is
				return s
			}
			continue
		}
		tot += s.Weight
	}
	k := int(NewRng(seed, "scenario").U64() % uint64(tot))
	for _, s := range ss {
		if s.Every > 0 {
			continue
		}
		if k < s.Weight {
			return s
		}
		k -= s.Weight
	}
	return ss[0]
}

func execCase(t *testing.T, sc *Scenario, w interface{}, known []KnownFinding, workDir string, replay bool, shrinking ...bool) (*Outcome, *Exec) {
	x := &Exec{T: t, Known: known, WorkDir: workDir, Replay: replay, Shrinking: len(shrinking) > 0 && shrinking[0]}
	o := sc.Exec(w, x)
	if o == nil {
		o = &Outcome{}
	}
	return o, x
}

// minimise shrinks a failing workload while the same signature persists.
func minimise(t *testing.T, sc *Scenario, w interface{}, sig string, known []KnownFinding, workDir string, deadline time.Time) (interface{}, int) {
	if sc.Shrink == nil {
		return w, 0
	}
	steps := 0
	for improved := true; improved && time.Now().Before(deadline); {
		improved = false
		for _, cand := range sc.Shrink(w) {
			if time.Now().After(deadline) {
				break
			}
			o, _ := execCase(t, sc, cand, known, workDir, true, true)
			if o.Violation != nil && o.Violation.class() == sig {
				w = cand
				steps++
				improved = true
				break
			}
		}
	}
	return w, steps
}

func clone(sc *Scenario, w interface{}) interface{} {
	b, _ := json.Marshal(w)
	n := sc.New()
	json.Unmarshal(b, n)
	return n
}

// TestWorker is the worker entry point (see cmd/vsim).
func workerMain(t *testing.T) {
	prop := os.Getenv("VSIM_PROP")
	tier := os.Getenv("VSIM_TIER")
	if tier == "" {
		tier = "quick"
	}
	outPath := os.Getenv("VSIM_OUT")
	workDir := os.Getenv("VSIM_WORKDIR")
	replayDir := os.Getenv("VSIM_REPLAYDIR")
	known := loadKnown()
	out, err := os.OpenFile(outPath, os.O_CREATE|os.O_WRONLY|os.O_APPEND, 0644)
	if err != nil {
		t.Fatalf("cannot open VSIM_OUT: %v", err)
	}
	defer out.Close()
	emit := func(r RunRecord) {
		b, _ := json.Marshal(r)
		out.Write(append(b, '\n'))
	}
	quiet()

	if rp := os.Getenv("VSIM_REPLAY"); rp != "" {
		b, err := os.ReadFile(rp)
		if err != nil {
			emit(RunRecord{Kind: "infra", Infra: "cannot read replay file: " + err.Error()})
			return
		}
		var rf ReplayFile
		if err := json.Unmarshal(b, &rf); err != nil {
			emit(RunRecord{Kind: "infra", Infra: "bad replay file: " + err.Error()})
			return
		}
		var sc *Scenario
		for _, s := range registry[rf.Property] {
			if s.Name == rf.Scenario {
				sc = s
			}
		}
		if rf.Scenario == "" {
			sc = pickScenario(rf.Property, rf.Seed)
		}
		if sc == nil {
			emit(RunRecord{Kind: "infra", Infra: "unknown scenario " + rf.Scenario})
			return
		}
		w := sc.New()
		if len(rf.Workload) == 0 || string(rf.Workload) == "null" {
			w = sc.Gen(NewRng(rf.Seed, sc.Name), tier, rf.Seed) // regenerated from the seed
		} else if err := json.Unmarshal(rf.Workload, w); err != nil {
			emit(RunRecord{Kind: "infra", Infra: "bad workload: " + err.Error()})
			return
		}
		o, x := execCase(t, sc, w, nil, workDir, true)
		if races := newRaceReports(); len(races) > 0 && o.Violation == nil {
			o.Violation = &Violation{Signature: rf.Property + "/data-race/" + races[0].sig, Detail: races[0].text}
		}
		if o.Violation != nil {
			emit(RunRecord{Kind: "violation", Seed: rf.Seed, Scenario: sc.Name, Signature: o.Violation.Signature, Detail: o.Violation.Detail, Replay: rp})
		}
		emit(RunRecord{Kind: "summary", Summary: &WorkerSummary{Runs: 1, Steps: int64(x.Stats.Steps), Counters: map[string]int{"trace_hash_match": b2i(fmt.Sprintf("%016x", x.Stats.TraceHash) == rf.TraceHash)}}})
		return
	}

	if os.Getenv("VSIM_SELFTEST") != "" {
		selftestWorker(t, emit, known, workDir)
		return
	}
	start := envU64("VSIM_SEED_START", 1)
	count := envInt("VSIM_COUNT", 100)
	stride := envU64("VSIM_SEED_STRIDE", 1)
	budget := time.Duration(envInt("VSIM_BUDGET_S", 60)) * time.Second
	t0 := time.Now()
	sum := &WorkerSummary{Inconclusive: map[string]int{}, Counters: map[string]int{}, Probes: map[string]int{}, ByScenario: map[string]int{}, ByPolicy: map[string]int{}, KnownHits: map[string]int{}}
	fps := map[uint64]struct{}{}
	ils := map[uint64]struct{}{}
	seenSig := map[string]int{}
	realSet, stubSet := map[string]bool{}, map[string]bool{}
	for i := 0; i < count; i++ {
		if time.Since(t0) > budget {
			break
		}
		seed := start + uint64(i)*stride
		os.WriteFile(outPath+".cur", []byte(fmt.Sprint(seed)), 0644)
		sc := pickScenario(prop, seed)
		if sc == nil {
			emit(RunRecord{Kind: "infra", Infra: "no scenario registered for " + prop})
			return
		}
		for _, c := range sc.Real {
			realSet[c] = true
		}
		for _, c := range sc.Stub {
			stubSet[c] = true
		}
		w := sc.Gen(NewRng(seed, sc.Name), tier, seed)
		if os.Getenv("VSIM_PRINT_WORKLOAD") != "" {
			wb, _ := json.Marshal(w)
			fmt.Fprintf(os.Stderr, "WORKLOAD seed=%d scenario=%s %s\n", seed, sc.Name, wb)
			os.WriteFile("/tmp/vsim-workload.json", wb, 0644)
		}
		o, x := execCase(t, sc, w, known, workDir, false)
		if races := newRaceReports(); len(races) > 0 {
			sum.Counters["race_reports_in_repo_code"] += len(races)
			if o.Violation == nil {
				o.Violation = &Violation{Signature: prop + "/data-race/" + races[0].sig, Detail: races[0].text}
			}
		}
		if os.Getenv("VSIM_DEBUG") != "" {
			wb, _ := json.Marshal(w)
			if len(wb) > 300 {
				wb = wb[:300]
			}
			fmt.Fprintf(os.Stderr, "DEBUG seed=%d steps=%d bubbles=%d inconcl=%q viol=%v %s\n", seed, x.Stats.Steps, x.Stats.Bubbles, o.Inconclusive, o.Violation != nil, wb)
		}
		sum.Runs++
		sum.ByScenario[sc.Name]++
		sum.Steps += int64(x.Stats.Steps)
		sum.SimTimeNs += int64(x.Stats.SimTime)
		sum.Bubbles += x.Stats.Bubbles
		sum.States += int64(x.Stats.States)
		sum.Spawned += int64(x.Stats.Spawned)
		for k, v := range o.Counters {
			sum.Counters[k] += v
		}
		for k, v := range x.Stats.Probes {
			sum.Probes[k] += v
		}
		for _, k := range o.KnownHits {
			sum.KnownHits[k]++
		}
		if o.Inconclusive != "" {
			sum.Inconclusive[o.Inconclusive]++
		}
		if strings.HasPrefix(o.Inconclusive, "infra:") {
			emit(RunRecord{Kind: "infra", Seed: seed, Scenario: sc.Name, Infra: o.Inconclusive})
		}
		if o.NonTrivial {
			if _, ok := fps[o.Fingerprint]; !ok {
				fps[o.Fingerprint] = struct{}{}
				sum.NonTrivial++
			}
		}
		if x.Stats.TraceHash != 0 {
			ils[x.Stats.TraceHash] = struct{}{}
		}
		if len(sum.Samples) < 3 && (o.NonTrivial || i == 0) {
			wb, _ := json.Marshal(map[string]interface{}{"seed": seed, "scenario": sc.Name, "workload": w, "steps": x.Stats.Steps, "extra": o.Sample})
			if len(wb) < 6000 {
				sum.Samples = append(sum.Samples, wb)
			}
		}
		if o.Violation != nil {
			cls := o.Violation.class()
			isKnown := false
			for _, k := range known {
				if k.Status == "known" && k.Property == prop && sigMatch(k.Signature, o.Violation.Signature) {
					isKnown = true
				}
			}
			if isKnown {
				// a listed finding: one record per signature and worker, no minimisation
				if seenSig["known:"+o.Violation.Signature] >= 1 {
					continue
				}
				seenSig["known:"+o.Violation.Signature]++
				wb, _ := json.Marshal(w)
				rf := ReplayFile{Property: prop, Scenario: sc.Name, Seed: seed, Signature: o.Violation.Signature, Detail: o.Violation.Detail, Workload: wb, TraceHash: fmt.Sprintf("%016x", x.Stats.TraceHash), Tier: tier, Note: "known finding"}
				name := fmt.Sprintf("%s/%s-known-%08x.json", replayDir, prop, uint32(hash64([]byte(o.Violation.Signature))))
				rb, _ := json.MarshalIndent(rf, "", " ")
				os.MkdirAll(replayDir, 0755)
				os.WriteFile(name, rb, 0644)
				emit(RunRecord{Kind: "violation", Seed: seed, Scenario: sc.Name, Signature: o.Violation.Signature, Detail: o.Violation.Detail, Replay: name, Known: true})
				continue
			}
			if seenSig[cls] >= envInt("VSIM_CLASS_LIMIT", 3) || seenSig[o.Violation.Signature] >= 1 { // a few replays per class and worker, one per signature
				sum.Counters["violations_duplicate_class"]++
				continue
			}
			seenSig[cls]++
			mw, steps := w, 0
			if !isKnown || os.Getenv("VSIM_MIN_KNOWN") != "" {
				mw, steps = minimise(t, sc, clone(sc, w), cls, known, workDir, time.Now().Add(time.Duration(envInt("VSIM_MIN_S", 20))*time.Second))
			}
			// confirm the (minimised) case once more, keep the original otherwise
			o2, x2 := execCase(t, sc, clone(sc, mw), known, workDir, true)
			minimised := steps > 0
			if o2.Violation == nil || o2.Violation.class() != cls {
				mw, minimised, o2, x2 = w, false, o, x
			}
			sig := o2.Violation.Signature
			isKnown = false
			for _, k := range known {
				if k.Status == "known" && k.Property == prop && sigMatch(k.Signature, sig) {
					isKnown = true
				}
			}
			if seenSig[sig] >= 1 && sig != cls {
				sum.Counters["violations_duplicate_signature"]++
				continue
			}
			seenSig[sig]++
			wb, _ := json.Marshal(mw)
			rf := ReplayFile{Property: prop, Scenario: sc.Name, Seed: seed, Signature: sig, Detail: o2.Violation.Detail, Workload: wb, Minimised: minimised, Shrinks: steps, TraceHash: fmt.Sprintf("%016x", x2.Stats.TraceHash), Tier: tier}
			name := fmt.Sprintf("%s/%s-%d-%08x.json", replayDir, prop, seed, uint32(hash64([]byte(sig))))
			rb, _ := json.MarshalIndent(rf, "", " ")
			os.MkdirAll(replayDir, 0755)
			os.WriteFile(name, rb, 0644)
			emit(RunRecord{Kind: "violation", Seed: seed, Scenario: sc.Name, Signature: sig, Detail: o2.Violation.Detail, Replay: name, Known: isKnown})
		}
	}
	for k := range fps {
		sum.Fingerprints = append(sum.Fingerprints, k)
	}
	for k := range ils {
		sum.Interleavings = append(sum.Interleavings, k)
	}
	for k := range realSet {
		sum.Real = append(sum.Real, k)
	}
	for k := range stubSet {
		sum.Stub = append(sum.Stub, k)
	}
	sort.Strings(sum.Real)
	sort.Strings(sum.Stub)
	sum.WallS = time.Since(t0).Seconds()
	emit(RunRecord{Kind: "summary", Summary: sum})
}

func b2i(b bool) int {
	if b {
		return 1
	}
	return 0
}

// selftestWorker executes every seed of the slice for every registered
// property twice in this process and emits one hash line per (property, seed):
// the orchestrator diffs them across processes with different GOMAXPROCS.
func selftestWorker(t *testing.T, emit func(RunRecord), known []KnownFinding, workDir string) {
	start := envU64("VSIM_SEED_START", 1)
	count := envInt("VSIM_COUNT", 20)
	tier := "quick"
	var plist []string
	for p := range registry {
		plist = append(plist, p)
	}
	sort.Strings(plist)
	if only := os.Getenv("VSIM_PROP"); only != "" {
		plist = []string{only}
	}
	runs := 0
	for _, prop := range plist {
		for i := 0; i < count; i++ {
			seed := start + uint64(i)
			sc := pickScenario(prop, seed)
			if sc == nil {
				continue
			}
			var hs [2]string
			for k := 0; k < 2; k++ {
				w := sc.Gen(NewRng(seed, sc.Name), tier, seed)
				o, x := execCase(t, sc, w, known, workDir, false)
				sig := ""
				if o.Violation != nil {
					sig = o.Violation.Signature
				}
				wb, _ := json.Marshal(w)
				hs[k] = fmt.Sprintf("%016x/%016x/%d/%s/%s", hash64(wb), x.Stats.TraceHash, x.Stats.Steps, sig, o.Inconclusive)
				runs++
			}
			if hs[0] != hs[1] {
				emit(RunRecord{Kind: "infra", Seed: seed, Scenario: sc.Name, Infra: fmt.Sprintf("nondeterminism within one process: property %s seed %d: %s vs %s", prop, seed, hs[0], hs[1])})
			}
			emit(RunRecord{Kind: "hash", Seed: seed, Scenario: prop + "/" + sc.Name, Hash: hs[0]})
		}
	}
	emit(RunRecord{Kind: "summary", Summary: &WorkerSummary{Runs: runs}})
}

// panicInHarness reports whether the innermost non-runtime frame of a recorded
// panic belongs to the harness (verifsim/...) rather than to repository code.
func panicInHarness(p string) bool {
	lines := strings.Split(p, "\n")
	seenPanic := false
	for _, l := range lines {
		if strings.HasPrefix(l, "\t") || l == "" {
			continue
		}
		if strings.HasPrefix(l, "panic(") {
			seenPanic = true
			continue
		}
		if !seenPanic {
			continue
		}
		switch {
		case strings.HasPrefix(l, "runtime."), strings.HasPrefix(l, "sync."), strings.HasPrefix(l, "internal/"):
			continue
		case strings.HasPrefix(l, "verifsim/"):
			return true
		default:
			return false
		}
	}
	return false
}
