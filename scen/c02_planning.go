package scen

import (
	"fmt"
	"strings"

	"github.com/bmeg/grip/engine/core"
	"github.com/bmeg/grip/engine/pipeline"
	"github.com/bmeg/grip/gdbi"
	"github.com/bmeg/grip/gripql"
	"verifsim/gen"
	"verifsim/model"
	"verifsim/simrt"
)

// C02 — query planning (index rewrite, load elision) never changes answers.
// Differential: the same statements run (a) through the production compiler
// (IndexStartOptimize + load elision) and (b) literally, one processor per
// statement with every step forced to load, no optimizer; both under the
// scheduler (the two plans have different goroutine structures). Backends:
// kvgraph as is, and a decorator that honours the "do not load" hint for
// vertices the way grids/mongo do. Also: count() equals the number of rows of
// the uncounted program; equivalent spellings of a label/id filter agree.

type c02W struct {
	Run     RunCfg           `json:"run"`
	Graph   *model.GraphData `json:"graph"`
	Prog    []string         `json:"prog"`
	Backend string           `json:"backend"` // kvgraph | hint
	Mode    string           `json:"mode"`    // literal | count | spelling
	Alt     []string         `json:"alt,omitempty"` // spelling: the equivalent program
	// History: vertices relabelled/deleted before the query (index then holds stale entries)
	Relabel []string `json:"relabel,omitempty"`
	Delete  []string `json:"delete,omitempty"`
}

func init() {
	Register(&Scenario{
		Name: "differential", Prop: "C02",
		Gen:    func(r *Rng, tier string, seed uint64) interface{} { return genC02(r, tier) },
		New:    func() interface{} { return &c02W{} },
		Exec:   func(w interface{}, x *Exec) *Outcome { return execC02(w.(*c02W), x) },
		Shrink: func(w interface{}) []interface{} { return shrinkC02(w.(*c02W)) },
		Real:   []string{"engine/core compiler, IndexStartOptimize, StatementProcessor", "engine/inspect", "engine/pipeline state/Run/Convert", "kvgraph label index", "kvindex"},
		Stub:   []string{"storage engine (simkv)", "hint-honouring backend = harness decorator over kvgraph (contract copied from grids/graph.go)"},
	})
}

func literalCompile(g gdbi.GraphInterface, stmts []*gripql.GraphStatement) (gdbi.Pipeline, error) {
	if err := core.Validate(stmts, nil); err != nil {
		return nil, err
	}
	ps := pipeline.NewPipelineState(stmts)
	for _, s := range ps.Steps {
		ps.StepOutputs[s] = []string{"*"} // every step loads everything
	}
	procs := make([]gdbi.Processor, 0, len(stmts))
	for i, gs := range stmts {
		ps.SetCurStatment(i)
		p, err := core.StatementProcessor(gs, g, ps)
		if err != nil {
			return nil, err
		}
		procs = append(procs, p)
	}
	return core.NewPipeline(g, procs, ps), nil
}

func spellings(r *Rng, g *model.GraphData) (a, b *gripql.GraphStatement) {
	l := gen.VLabels[r.Intn(3)]
	l2 := gen.VLabels[(r.Intn(2)+1+indexOfStr(gen.VLabels, l))%3]
	switch r.Intn(7) {
	case 0:
		return gen.HasLabel(l), gen.Has(gripql.Eq("_label", l))
	case 1:
		return gen.HasLabel(l), gen.Has(gripql.Within("_label", l))
	case 2:
		return gen.HasLabel(l, l2), gen.Has(gripql.Within("_label", l, l2))
	case 3:
		return gen.HasLabel(l), gen.Has(gripql.And(gripql.Eq("_label", l)))
	case 4:
		id := "v0"
		if len(g.V) > 0 {
			id = g.V[r.Intn(len(g.V))].ID
		}
		return gen.HasID(id), gen.Has(gripql.Eq("_gid", id))
	case 5:
		ids := []string{"v0", "v1", "nov0"}
		return gen.HasID(ids...), gen.Has(gripql.Within("_gid", "v0", "v1", "nov0"))
	default:
		return gen.Has(gripql.And(gripql.Eq("_label", l), gripql.Gt("n", 0.0))), gen.Has(gripql.And(gripql.Gt("n", 0.0), gripql.Eq("_label", l)))
	}
}

func indexOfStr(a []string, s string) int {
	for i, x := range a {
		if x == s {
			return i
		}
	}
	return 0
}

func genC02(r *Rng, tier string) *c02W {
	w := &c02W{Run: GenRunCfg(r, []int{1, 1, 10, 100})}
	w.Graph = gen.Graph(r, gen.GraphOpts{MaxV: 10, MaxE: 16})
	w.Backend = []string{"kvgraph", "hint"}[r.Intn(2)]
	switch r.Intn(10) {
	case 0, 1:
		w.Mode = "count"
		p := gen.Program(r, w.Graph, gen.ProgOpts{MaxLen: 6, NoTrunc: true, IndexBias: true})
		// strip trailing non-element steps: count() of P vs rows of P
		w.Prog = gen.StmtsJSON(p)
	case 2, 3:
		w.Mode = "spelling"
		a, b := spellings(r, w.Graph)
		rest := gen.Program(r, w.Graph, gen.ProgOpts{MaxLen: 4, NoTrunc: true})[1:]
		if len(rest) > 0 {
			// the tail must start from a vertex: drop it if the generated start was E()
			if gen.TypeCheck(append([]*gripql.GraphStatement{gen.V()}, rest...)) == gen.IllTyped {
				rest = nil
			}
		}
		pa := append([]*gripql.GraphStatement{gen.V(), a}, rest...)
		pb := append([]*gripql.GraphStatement{gen.V(), b}, rest...)
		w.Prog, w.Alt = gen.StmtsJSON(pa), gen.StmtsJSON(pb)
	default:
		w.Mode = "literal"
		p := gen.Program(r, w.Graph, gen.ProgOpts{MaxLen: 8, IndexBias: r.Chance(60), Aggregate: false})
		w.Prog = gen.StmtsJSON(p)
	}
	if r.Chance(25) && len(w.Graph.V) > 1 {
		// history: relabel or delete vertices after the load (label index keeps old entries)
		for i := 0; i < 1+r.Intn(2); i++ {
			id := w.Graph.V[r.Intn(len(w.Graph.V))].ID
			if r.Chance(50) {
				w.Relabel = append(w.Relabel, id)
			} else {
				w.Delete = append(w.Delete, id)
			}
		}
	}
	return w
}

func shrinkC02(w *c02W) []interface{} {
	var out []interface{}
	cp := func() *c02W { n := &c02W{}; jsonClone(w, n); return n }
	if w.Mode != "spelling" {
		for i := len(w.Prog) - 1; i >= 1; i-- {
			n := cp()
			n.Prog = append(append([]string{}, w.Prog[:i]...), w.Prog[i+1:]...)
			out = append(out, n)
		}
	} else {
		for i := len(w.Prog) - 1; i >= 2; i-- {
			n := cp()
			n.Prog = append(append([]string{}, w.Prog[:i]...), w.Prog[i+1:]...)
			n.Alt = append(append([]string{}, w.Alt[:i]...), w.Alt[i+1:]...)
			out = append(out, n)
		}
	}
	if len(w.Relabel)+len(w.Delete) > 0 {
		n := cp()
		n.Relabel, n.Delete = nil, nil
		out = append(out, n)
	}
	for i := len(w.Graph.E) - 1; i >= 0; i-- {
		n := cp()
		n.Graph.E = append(n.Graph.E[:i], n.Graph.E[i+1:]...)
		out = append(out, n)
	}
	for i := len(w.Graph.V) - 1; i >= 0; i-- {
		n := cp()
		n.Graph.V = append(n.Graph.V[:i], n.Graph.V[i+1:]...)
		out = append(out, n)
	}
	if w.Run.Policy != 0 || w.Run.CapDiv != 1 {
		n := cp()
		n.Run.Policy, n.Run.StarveIdx, n.Run.StarveSite, n.Run.CapDiv = 0, 0, "", 1
		out = append(out, n)
	}
	return out
}

func hasWeakStep(stmts []*gripql.GraphStatement) bool {
	for i, s := range stmts {
		switch x := s.Statement.(type) {
		case *gripql.GraphStatement_Limit, *gripql.GraphStatement_Skip, *gripql.GraphStatement_Range:
			return true
		case *gripql.GraphStatement_Distinct:
			// which representative survives is unspecified; exact only when nothing later can tell
			_ = x
			if i < len(stmts)-1 {
				return true
			}
			return true
		}
	}
	return false
}

func execC02(w *c02W, x *Exec) *Outcome {
	o := &Outcome{}
	stmts, err := gen.StmtsFromJSON(w.Prog)
	if err != nil {
		o.Inconclusive = "infra:bad program json: " + err.Error()
		return o
	}
	o.Count("mode:"+w.Mode, 1)
	o.Count("backend:"+w.Backend, 1)
	o.Count("policy:"+simrt.Policy(w.Run.Policy).String(), 1)
	if len(w.Relabel)+len(w.Delete) > 0 {
		o.Count("history:relabel/delete before query", 1)
	}
	cfg := w.Run.Sim()
	if cfg.MaxSteps == 0 {
		cfg.MaxSteps = 1500000
	}
	back := func(g gdbi.GraphInterface) gdbi.GraphInterface {
		// history on the loaded graph
		for _, id := range w.Relabel {
			for _, v := range w.Graph.V {
				if v.ID == id {
					nl := gen.VLabels[(indexOfStr(gen.VLabels, v.Label)+1)%3]
					g.AddVertex([]*gdbi.Vertex{{ID: id, Label: nl, Data: model.DeepCopyMap(v.Data)}})
				}
			}
		}
		for _, id := range w.Delete {
			g.DelVertex(id)
		}
		if w.Backend == "hint" {
			return newHintGraph(g)
		}
		return g
	}
	run := func(st []*gripql.GraphStatement, literal bool) travResult {
		opts := travOpts{CancelAfter: -1, Backend: back}
		if literal {
			opts.Compile = literalCompile
		}
		tr := runTraversal(x, cfg, w.Graph, st, opts)
		if tr.Bubble.Verdict == simrt.Budget && cfg.Policy != simrt.PolRR {
			c2 := cfg
			c2.Policy = simrt.PolRR
			saved := cfg
			cfg = c2
			tr = runTraversal(x, cfg, w.Graph, st, opts)
			cfg = saved
		}
		return tr
	}
	names := stmtNames(stmts)
	bad := func(tr travResult, which string) bool {
		switch {
		case tr.Bubble.Infra != "":
			o.Inconclusive = "infra:" + tr.Bubble.Infra
		case tr.LoadErr != "":
			o.Inconclusive = "infra:load: " + tr.LoadErr
		case len(tr.Bubble.Panics) > 0:
			o.Violation = &Violation{Signature: "C02/panic(" + which + ")/" + panicSite(tr.Bubble.Panics[0]), Detail: names + ": " + tr.Bubble.Panics[0]}
		case tr.Bubble.Verdict == simrt.Budget:
			o.Inconclusive = "step budget"
		case tr.CompileErr == "" && (tr.Bubble.Verdict != simrt.Done || !tr.Closed):
			o.Violation = &Violation{Class: "C02/never-finishes(" + which + ")", Signature: "C02/never-finishes(" + which + ")/" + names, Detail: fmt.Sprintf("verdict %s closed %v left %v", tr.Bubble.Verdict, tr.Closed, tr.Bubble.LiveSites)}
		default:
			return false
		}
		return true
	}
	o.Fingerprint = hash64([]byte(model.Canon(w.Graph) + strings.Join(w.Prog, ";") + w.Backend + w.Mode))
	switch w.Mode {
	case "literal":
		a := run(stmts, false)
		if bad(a, "optimized") {
			return o
		}
		b := run(stmts, true)
		if bad(b, "literal") {
			return o
		}
		o.Fingerprint ^= x.Stats.TraceHash
		if (a.CompileErr == "") != (b.CompileErr == "") {
			o.Violation = &Violation{Signature: "C02/compile-disagreement", Detail: fmt.Sprintf("%s: optimized compile error %q, literal compile error %q", names, a.CompileErr, b.CompileErr)}
			return o
		}
		if a.CompileErr != "" {
			return o
		}
		o.NonTrivial = len(b.Rows) > 0
		if hasWeakStep(stmts) {
			if len(a.Rows) != len(b.Rows) {
				o.Violation = &Violation{Class: "C02/rows-differ/count", Signature: "C02/rows-differ/count/" + w.Backend + "/" + names, Detail: fmt.Sprintf("%s on %s: optimized plan returned %d rows, literal plan %d", names, w.Backend, len(a.Rows), len(b.Rows))}
			}
			return o
		}
		if d := model.MultisetDiff(b.Rows, a.Rows); d != "" {
			o.Violation = &Violation{Class: "C02/rows-differ/" + w.Backend, Signature: "C02/rows-differ/" + w.Backend + "/" + names, Detail: fmt.Sprintf("%s on backend %s: literal (expected) vs optimized (got): %s", names, w.Backend, d)}
		}
	case "count":
		a := run(stmts, false)
		if bad(a, "optimized") {
			return o
		}
		if a.CompileErr != "" {
			return o
		}
		cs := append(append([]*gripql.GraphStatement{}, stmts...), gen.Count())
		c := run(cs, false)
		if bad(c, "optimized+count") {
			return o
		}
		o.Fingerprint ^= x.Stats.TraceHash
		if c.CompileErr != "" {
			return o
		}
		o.NonTrivial = len(a.Rows) > 0
		want := model.Canon(map[string]interface{}{"count": float64(len(a.Rows))})
		if len(c.Rows) != 1 || c.Rows[0] != want {
			o.Violation = &Violation{Class: "C02/count-differs/" + w.Backend, Signature: "C02/count-differs/" + w.Backend + "/" + names, Detail: fmt.Sprintf("%s on %s returned %d rows but %s.count() returned %v", names, w.Backend, len(a.Rows), names, c.Rows)}
		}
	case "spelling":
		alt, err := gen.StmtsFromJSON(w.Alt)
		if err != nil {
			o.Inconclusive = "infra:bad alt program"
			return o
		}
		a := run(stmts, false)
		if bad(a, "spelling-a") {
			return o
		}
		b := run(alt, false)
		if bad(b, "spelling-b") {
			return o
		}
		o.Fingerprint ^= x.Stats.TraceHash
		if a.CompileErr != "" || b.CompileErr != "" {
			if (a.CompileErr == "") != (b.CompileErr == "") {
				o.Violation = &Violation{Signature: "C02/spelling/compile-disagreement", Detail: fmt.Sprintf("%s: %q vs %s: %q", names, a.CompileErr, stmtNames(alt), b.CompileErr)}
			}
			return o
		}
		o.NonTrivial = len(a.Rows) > 0 || len(b.Rows) > 0
		if hasWeakStep(stmts) {
			if len(a.Rows) != len(b.Rows) {
				o.Violation = &Violation{Class: "C02/spelling/count", Signature: "C02/spelling/count/" + names, Detail: fmt.Sprintf("%d vs %d rows", len(a.Rows), len(b.Rows))}
			}
			return o
		}
		if d := model.MultisetDiff(a.Rows, b.Rows); d != "" {
			o.Violation = &Violation{Class: "C02/spelling/" + w.Backend, Signature: "C02/spelling/" + w.Backend + "/" + w.Prog[1] + "~" + w.Alt[1], Detail: fmt.Sprintf("%s vs %s on %s: %s", strings.Join(w.Prog, "."), strings.Join(w.Alt, "."), w.Backend, d)}
		}
	}
	return o
}
