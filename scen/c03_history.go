package scen

import (
	"fmt"
	"sort"
	"strings"
	"time"

	"github.com/bmeg/grip/gdbi"
	"github.com/bmeg/grip/kvgraph"
	"verifsim/gen"
	"verifsim/model"
	"verifsim/simkv"
)

// C03 — any mutation history leaves exactly the abstract graph observable.
// One simulated client issues a generated history against the real kvgraph
// over the simulated disk; after EVERY step the full observable state is read
// through the public read API and compared with refgraph, and the timestamp
// rule is checked on the simulated clock (including the same_tick fault).
//
// C04 (reopen at every position, crash before every top-level write) and C16
// (hostile identifiers) reuse this runner.

type c03W struct {
	Ops        []gen.HOp `json:"ops"`
	Mode       string    `json:"mode"` // history | reopen-everywhere | crash
	CommitOnError bool   `json:"kv_commit_on_error,omitempty"`
	Avoided    []string  `json:"avoided_shapes,omitempty"`
}

var hUniverse = universe{Graphs: gen.HGraphUniverse, VIDs: append(append([]string{}, gen.HVIDs...), "ghost"), EIDs: gen.HEIDs, VLabels: gen.VLabels, ELabels: gen.ELabels}

func init() {
	Register(&Scenario{
		Name: "history", Prop: "C03",
		Gen:    func(r *Rng, tier string, seed uint64) interface{} { return genC03(r, tier, seed) },
		New:    func() interface{} { return &c03W{} },
		Exec:   func(w interface{}, x *Exec) *Outcome { return execC03(w.(*c03W), x, "C03") },
		Shrink: func(w interface{}) []interface{} { return shrinkC03(w.(*c03W)) },
		Real:   []string{"kvgraph (graph.go, graphdb.go, keys.go, index.go)", "kvindex", "timestamp", "gripql validation", "engine compile+pipeline for the label-index observation"},
		Stub:   []string{"storage engine (simkv behind kvi.KVInterface)"},
	})
}

func genC03(r *Rng, tier string, seed uint64) *c03W {
	w := &c03W{Mode: "history"}
	o := gen.HistOpts{MaxLen: 12, Invalid: true, SameTick: r.Chance(20), Bulk: true}
	if tier == "thorough" && r.Chance(30) {
		o.MaxLen = 40
	}
	if r.Chance(30) {
		o.MaxLen = 4 // many short histories: most bugs need three or fewer operations
	}
	if r.Chance(50) {
		// avoidance mode: do not emit the operation shape of a recorded finding,
		// so that the healthy remainder is still explored to full depth
		o.Avoid = map[string]bool{"readd-edge-changed": true}
		w.Avoided = []string{"re-adding an existing edge id with other endpoints or label"}
	}
	w.Ops = gen.History(r, o)
	return w
}

func shrinkC03(w *c03W) []interface{} {
	var out []interface{}
	cp := func() *c03W { n := &c03W{}; jsonClone(w, n); return n }
	if len(w.Ops) > 2 {
		n := cp()
		n.Ops = n.Ops[:len(n.Ops)/2]
		out = append(out, n)
	}
	for i := len(w.Ops) - 1; i >= 0; i-- {
		n := cp()
		n.Ops = append(n.Ops[:i], n.Ops[i+1:]...)
		out = append(out, n)
	}
	for i, op := range w.Ops {
		if len(op.V)+len(op.E) > 1 {
			n := cp()
			if len(op.V) > 0 {
				n.Ops[i].V = n.Ops[i].V[:len(op.V)-1]
			} else {
				n.Ops[i].E = n.Ops[i].E[:len(op.E)-1]
			}
			out = append(out, n)
		}
		for j, v := range op.V {
			if v.Data != nil {
				n := cp()
				n.Ops[i].V[j].Data = nil
				out = append(out, n)
			}
		}
		for j, e := range op.E {
			if e.Data != nil {
				n := cp()
				n.Ops[i].E[j].Data = nil
				out = append(out, n)
			}
		}
	}
	return out
}

// ---------------------------------------------------------------------------

func validName(k string) bool {
	if strings.ContainsAny(k, "!@#$%^&*()+={}[] :;\"',.<>?/\\|~") {
		return false
	}
	return !(strings.HasPrefix(k, "_") || strings.HasPrefix(k, "-"))
}

var reservedFields = map[string]bool{"_gid": true, "_label": true, "_to": true, "_from": true, "_data": true}

func validData(d map[string]interface{}) bool {
	for k := range d {
		if reservedFields[k] || !validName(k) {
			return false
		}
	}
	return true
}

func validVertex(v *model.Vertex) bool { return v.ID != "" && v.Label != "" && validData(v.Data) }
func validEdge(e *model.Edge) bool {
	return e.ID != "" && e.Label != "" && e.From != "" && e.To != "" && validData(e.Data)
}

// histRunner executes operations on the implementation and on the model.
type histRunner struct {
	disk    *simkv.Disk
	db      gdbi.GraphDB
	m       *model.Store
	u       universe
	seenTS  map[string]map[string]bool
	workDir string
	masked  map[string]bool // observable kinds no longer compared (known finding hit, independent observable)
	lenient bool            // C16: the implementation decides acceptance; an error must change nothing
	lastErr error
}

func newHistRunner(disk *simkv.Disk, workDir string, u universe) *histRunner {
	return &histRunner{disk: disk, db: kvgraph.NewKVGraph(disk.Open()), m: model.NewStore(), u: u, seenTS: map[string]map[string]bool{}, workDir: workDir}
}

func (h *histRunner) reopen() {
	h.db.Close()
	h.db = kvgraph.NewKVGraph(h.disk.Open())
}

// expectation of the model for one op.
type expect struct {
	ok      bool   // the call must succeed
	mayFail bool   // an error return is allowed although nothing is wrong (delete of absent)
	mutates string // graph whose timestamp must change ("" = none)
	noJudgeTS bool
	shape   string // operation shape relative to the state before (for signatures)
}

func (h *histRunner) applyModel(op gen.HOp) expect {
	ex := expect{shape: op.Op}
	g := h.m.Graphs[op.G]
	switch op.Op {
	case "addGraph":
		if !validName(op.G) {
			ex.shape = "addGraph(invalid name)"
			return ex
		}
		ex.ok = true
		if g == nil {
			h.m.Graphs[op.G] = model.NewG()
			ex.mutates = op.G
			ex.shape = "addGraph(new)"
		} else {
			ex.noJudgeTS = true // re-creating an existing graph: the documentation does not say whether that counts as a mutation
			ex.shape = "addGraph(existing)"
		}
	case "delGraph":
		ex.ok, ex.mayFail = true, true
		if g != nil {
			delete(h.m.Graphs, op.G)
			ex.shape = "delGraph(existing)"
			ex.noJudgeTS = true // the graph is gone, its timestamp is not observable
		} else {
			ex.shape = "delGraph(absent)"
		}
	case "addV", "addE", "batch", "bulk":
		if g == nil {
			ex.shape = op.Op + "(absent graph)"
			return ex
		}
		allValid := true
		for _, v := range op.V {
			if !validVertex(v) {
				allValid = false
			}
		}
		for _, e := range op.E {
			if !validEdge(e) {
				allValid = false
			}
		}
		if !allValid {
			ex.shape = op.Op + "(invalid element)"
			return ex
		}
		ex.ok = true
		ex.mutates = op.G
		shapes := map[string]bool{}
		for _, v := range op.V {
			if old, ok := g.V[v.ID]; ok {
				if old.Label != v.Label {
					shapes["existing vertex id, other label"] = true
				} else {
					shapes["existing vertex id, same label"] = true
				}
			} else {
				shapes["new vertex"] = true
			}
			g.AddVertex(v)
		}
		for _, e := range op.E {
			if old, ok := g.E[e.ID]; ok {
				switch {
				case old.From != e.From || old.To != e.To:
					shapes["existing edge id, other endpoints"] = true
				case old.Label != e.Label:
					shapes["existing edge id, other label"] = true
				default:
					shapes["existing edge id, same endpoints and label"] = true
				}
			} else {
				shapes["new edge"] = true
			}
			g.AddEdge(e)
		}
		var ss []string
		for _, k := range []string{"existing edge id, other endpoints", "existing edge id, other label", "existing vertex id, other label", "existing edge id, same endpoints and label", "existing vertex id, same label", "new edge", "new vertex"} {
			if shapes[k] {
				ss = append(ss, k)
				break // the most specific shape names the signature
			}
		}
		ex.shape = op.Op + "(" + strings.Join(ss, ";") + ")"
	case "delV":
		ex.ok, ex.mayFail = true, true
		if g == nil {
			ex.ok = false
			ex.shape = "delV(absent graph)"
			return ex
		}
		if _, ok := g.V[op.ID]; ok {
			inc := len(g.OutEdges(op.ID, nil)) + len(g.InEdges(op.ID, nil))
			g.DelVertex(op.ID)
			ex.mutates = op.G
			ex.shape = "delV(existing)"
			if inc > 0 {
				ex.shape = "delV(existing, with incident edges)"
			}
		} else {
			ex.shape = "delV(absent)"
		}
	case "delE":
		ex.ok, ex.mayFail = true, true
		if g == nil {
			ex.ok = false
			ex.shape = "delE(absent graph)"
			return ex
		}
		if g.DelEdge(op.ID) {
			ex.mutates = op.G
			ex.shape = "delE(existing)"
		} else {
			ex.shape = "delE(absent)"
		}
	case "reopen":
		ex.ok = true
		ex.noJudgeTS = true
	}
	return ex
}

func (h *histRunner) applyReal(op gen.HOp) error {
	switch op.Op {
	case "addGraph":
		return h.db.AddGraph(op.G)
	case "delGraph":
		return h.db.DeleteGraph(op.G)
	case "reopen":
		h.reopen()
		return nil
	}
	g, err := h.db.Graph(op.G)
	if err != nil {
		return err
	}
	switch op.Op {
	case "addV", "addE", "batch":
		if len(op.V) > 0 {
			vs := make([]*gdbi.Vertex, len(op.V))
			for i, v := range op.V {
				vs[i] = toGV(v)
			}
			if err := g.AddVertex(vs); err != nil {
				return err
			}
		}
		if len(op.E) > 0 {
			es := make([]*gdbi.Edge, len(op.E))
			for i, e := range op.E {
				es[i] = toGE(e)
			}
			if err := g.AddEdge(es); err != nil {
				return err
			}
		}
		return nil
	case "bulk":
		ch := make(chan *gdbi.GraphElement, len(op.V)+len(op.E))
		for _, v := range op.V {
			ch <- &gdbi.GraphElement{Graph: op.G, Vertex: toGV(v)}
		}
		for _, e := range op.E {
			ch <- &gdbi.GraphElement{Graph: op.G, Edge: toGE(e)}
		}
		close(ch)
		return g.BulkAdd(ch)
	case "delV":
		return g.DelVertex(op.ID)
	case "delE":
		return g.DelEdge(op.ID)
	}
	return fmt.Errorf("unknown op %s", op.Op)
}

func (h *histRunner) timestamps() map[string]string {
	out := map[string]string{}
	for _, gn := range h.u.Graphs {
		if g, err := h.db.Graph(gn); err == nil {
			out[gn] = g.GetTimestamp()
		}
	}
	return out
}

// step applies one op to both sides and judges it. Returns a violation or nil.
func (h *histRunner) step(prop string, i int, op gen.HOp) *Violation {
	if h.disk.CommitOnError && (op.Op == "bulk" || op.Op == "batch") && len(op.V)+len(op.E) > 1 {
		// A driver-level call with an invalid element fails as a whole. Whether
		// its valid siblings are stored depends on the key-value store (Badger
		// and Bolt discard the write batch of a failed callback, LevelDB and
		// Pebble have already applied it): unspecified, so with the committing
		// disk the call is reduced to its invalid elements.
		var bv []*model.Vertex
		var be []*model.Edge
		for _, v := range op.V {
			if !validVertex(v) {
				bv = append(bv, v)
			}
		}
		for _, e := range op.E {
			if !validEdge(e) {
				be = append(be, e)
			}
		}
		if len(bv)+len(be) > 0 {
			op.V, op.E = bv, be
		}
	}
	before := h.timestamps()
	for g, ts := range before {
		if h.seenTS[g] == nil {
			h.seenTS[g] = map[string]bool{}
		}
		h.seenTS[g][ts] = true
	}
	if op.TickUs > 0 {
		time.Sleep(time.Duration(op.TickUs) * time.Microsecond)
	}
	var ex expect
	var err error
	where := fmt.Sprintf("step %d %s", i, opString(op))
	if h.lenient {
		readd := false
		if g := h.m.Graphs[op.G]; g != nil {
			for _, e := range op.E {
				if old, ok := g.E[e.ID]; ok && (old.From != e.From || old.To != e.To || old.Label != e.Label) {
					readd = true
				}
			}
		}
		err = h.applyReal(op)
		h.lastErr = err
		if err == nil {
			h.admit(op)
			ex = h.applyModelForced(op)
		} else {
			ex = expect{shape: op.Op + "(rejected)", noJudgeTS: true}
		}
		ex.shape = op.Op + "(" + hostileShape(op) + ")"
		if readd {
			ex.shape = op.Op + "(existing edge id, other endpoints or label)"
		}
		ex.noJudgeTS = true
	} else {
		ex = h.applyModel(op)
		err = h.applyReal(op)
	}
	if h.lenient {
		// acceptance is the implementation's call
	} else if err == nil && !ex.ok {
		return &Violation{Class: prop + "/accepted-invalid", Signature: prop + "/accepted-invalid/after=" + ex.shape, Detail: where + ": the call must be rejected with an error but returned success"}
	}
	if err != nil && ex.ok && !ex.mayFail {
		return &Violation{Class: prop + "/rejected-valid", Signature: prop + "/rejected-valid/after=" + ex.shape, Detail: where + ": valid call returned error: " + err.Error()}
	}
	want := observeModel(h.m, h.u)
	got := observeReal(h.db, h.u, h.workDir)
	for k := range h.masked {
		want.dropKind(k)
		got.dropKind(k)
	}
	if k, wv, gv := want.diff(got); k != "" {
		return &Violation{Class: prop + "/obs=" + obsKind(k), Signature: prop + "/obs=" + obsKind(k) + "/after=" + ex.shape, Detail: fmt.Sprintf("%s: observable %s\n  expected (abstract graph): %s\n  got (implementation):      %s", where, k, wv, gv)}
	}
	// timestamp rule
	after := h.timestamps()
	if !ex.noJudgeTS {
		for _, gn := range h.u.Graphs {
			a, okA := after[gn]
			b, okB := before[gn]
			if !okA {
				continue
			}
			if gn == ex.mutates && err == nil {
				if h.seenTS[gn][a] || (okB && a == b) {
					tag := ""
					if op.TickUs == 0 {
						tag = "+same_tick"
					}
					return &Violation{Class: prop + "/timestamp-unchanged-after-mutation", Signature: prop + "/timestamp-unchanged-after-mutation/after=" + ex.shape + tag, Detail: fmt.Sprintf("%s: graph %s was mutated but its timestamp %q was already observed before (simulated time passed before the call: %dus)", where, gn, a, op.TickUs)}
				}
			} else if okB && a != b {
				return &Violation{Class: prop + "/timestamp-changed-without-mutation", Signature: prop + "/timestamp-changed-without-mutation/after=" + ex.shape, Detail: fmt.Sprintf("%s: timestamp of %s changed %q -> %q although the graph was not mutated (call error: %v)", where, gn, b, a, err)}
			}
		}
	}
	return nil
}

func opString(op gen.HOp) string {
	b := model.Canon(map[string]interface{}{"op": op.Op, "g": op.G, "id": op.ID, "nv": float64(len(op.V)), "ne": float64(len(op.E))})
	if len(op.V) == 1 {
		b += " v=" + mvCanon(op.V[0])
	}
	if len(op.E) == 1 {
		b += " e=" + meCanon(op.E[0], true)
	}
	return b
}

func execC03(w *c03W, x *Exec, prop string) *Outcome {
	o := &Outcome{}
	o.Count("history_len", len(w.Ops))
	for _, op := range w.Ops {
		o.Count("op:"+op.Op, 1)
		if op.TickUs == 0 {
			o.Count("fault:same_tick", 1)
		}
	}
	b, _ := jsonMarshal(w.Ops)
	o.Fingerprint = hash64(b)
	o.NonTrivial = len(w.Ops) >= 2
	var viol *Violation
	infra := x.PassiveBubble(func() {
		disk := simkv.NewDisk()
		disk.CommitOnError = w.CommitOnError
		h := newHistRunner(disk, x.WorkDir, hUniverse)
		for i, op := range w.Ops {
			v := safeStep(h, prop, i, op)
			for v != nil && x.IsKnown(prop, v.Signature) && independentObs[obsKindOf(v.Signature)] {
				// a listed finding on an observable that does not feed any other
				// (label listings): record it, stop comparing that observable,
				// and judge the same state again
				o.KnownHits = append(o.KnownHits, v.Signature)
				if h.masked == nil {
					h.masked = map[string]bool{}
				}
				h.masked[obsKindOf(v.Signature)] = true
				v = h.rejudge(prop, i, op)
			}
			if v != nil {
				if x.IsKnown(prop, v.Signature) {
					// model and implementation have legitimately diverged: stop judging here
					o.KnownHits = append(o.KnownHits, v.Signature)
					o.Count("ended_at_known", 1)
				}
				viol = v
				return
			}
			o.Count("steps_judged", 1)
		}
	})
	if infra != "" {
		o.Inconclusive = "infra:" + infra
		return o
	}
	o.Violation = viol
	return o
}

// safeStep turns a panic of the code under test on the client goroutine into a
// violation (it would have terminated the server).
func safeStep(h *histRunner, prop string, i int, op gen.HOp) (v *Violation) {
	defer func() {
		if r := recover(); r != nil {
			st := make([]byte, 6000)
			st = st[:runtimeStack(st)]
			msg := fmt.Sprintf("goroutine client: panic: %v\n%s", r, st)
			v = &Violation{Signature: prop + "/panic/" + panicSite(msg), Detail: fmt.Sprintf("step %d %s: %s", i, opString(op), msg)}
		}
	}()
	return h.step(prop, i, op)
}

// label listings are computed from the index terms only; nothing else reads them
var independentObs = map[string]bool{"vertex-labels": true, "edge-labels": true}

func obsKindOf(sig string) string {
	i := strings.Index(sig, "/obs=")
	if i < 0 {
		return ""
	}
	s := sig[i+5:]
	if j := strings.Index(s, "/"); j >= 0 {
		s = s[:j]
	}
	return s
}

// rejudge compares the current state again (after an observable was masked).
func (h *histRunner) rejudge(prop string, i int, op gen.HOp) *Violation {
	want := observeModel(h.m, h.u)
	got := observeReal(h.db, h.u, h.workDir)
	for k := range h.masked {
		want.dropKind(k)
		got.dropKind(k)
	}
	if k, wv, gv := want.diff(got); k != "" {
		return &Violation{Class: prop + "/obs=" + obsKind(k), Signature: prop + "/obs=" + obsKind(k) + "/after=" + op.Op + "(state after a known finding)", Detail: fmt.Sprintf("step %d %s: observable %s\n  expected (abstract graph): %s\n  got (implementation):      %s", i, opString(op), k, wv, gv)}
	}
	return nil
}

// applyModelForced applies an accepted call to the model without validating.
func (h *histRunner) applyModelForced(op gen.HOp) expect {
	ex := expect{ok: true, shape: op.Op}
	g := h.m.Graphs[op.G]
	switch op.Op {
	case "addGraph":
		if g == nil {
			h.m.Graphs[op.G] = model.NewG()
		}
	case "delGraph":
		delete(h.m.Graphs, op.G)
	case "addV", "addE", "batch", "bulk":
		if g == nil {
			return ex
		}
		for _, v := range op.V {
			g.AddVertex(v)
		}
		for _, e := range op.E {
			g.AddEdge(e)
		}
	case "delV":
		if g != nil {
			g.DelVertex(op.ID)
		}
	case "delE":
		if g != nil {
			g.DelEdge(op.ID)
		}
	}
	return ex
}

func hostileShape(op gen.HOp) string {
	var parts []string
	add := func(what, s string) {
		if c := idClass(s); c != "plain" {
			parts = append(parts, what+":"+c)
		}
	}
	if op.Op != "reopen" {
		add("graph", op.G)
	}
	for _, v := range op.V {
		add("id", v.ID)
		add("label", v.Label)
		for k := range v.Data {
			add("key", k)
		}
	}
	for _, e := range op.E {
		add("id", e.ID)
		add("label", e.Label)
		add("from", e.From)
		add("to", e.To)
		for k := range e.Data {
			add("key", k)
		}
	}
	if op.ID != "" || op.Op == "delV" || op.Op == "delE" {
		add("id", op.ID)
	}
	if len(parts) == 0 {
		return "plain identifiers"
	}
	// the most specific feature names the shape
	for _, pri := range []string{"contains-0x00", "invalid-utf8", "contains-0x01", "empty", "internal-word", "very-long", "contains(", "non-ascii"} {
		for _, p := range parts {
			if strings.Contains(p, pri) {
				return p
			}
		}
	}
	sort.Strings(parts)
	return parts[0]
}

// admit adds the identifiers of an accepted write to the observed universe.
func (h *histRunner) admit(op gen.HOp) {
	add := func(l *[]string, s string) {
		for _, x := range *l {
			if x == s {
				return
			}
		}
		*l = append(*l, s)
	}
	if op.Op == "addGraph" {
		add(&h.u.Graphs, op.G)
	}
	for _, v := range op.V {
		add(&h.u.VIDs, v.ID)
		add(&h.u.VLabels, v.Label)
	}
	for _, e := range op.E {
		add(&h.u.EIDs, e.ID)
		add(&h.u.VIDs, e.From)
		add(&h.u.VIDs, e.To)
		add(&h.u.ELabels, e.Label)
	}
}
