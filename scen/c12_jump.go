package scen

import (
	"fmt"
	"strings"

	"github.com/bmeg/grip/gripql"
	"verifsim/gen"
	"verifsim/model"
	"verifsim/simrt"
)

// C12 — mark/jump loops are exact and terminate under every schedule.
// The pure scheduling property: mark, body stages, jump, queue-in and
// queue-out goroutines close the loop with a polling signal protocol; every
// policy (with starve-one aimed at each goroutine in turn), interleaved clock
// advances and scaled capacities are sampled. Oracle: refjump (exact multiset),
// the stream closes, no goroutine is left.

type c12W struct {
	Run    RunCfg           `json:"run"`
	Graph  *model.GraphData `json:"graph"`
	Prog   []string         `json:"prog"`
	Family string           `json:"family"`
	Limit  int              `json:"limit"` // >0: a limit(k) follows the loop (cancellation)
	Volume bool             `json:"volume,omitempty"`
}

func init() {
	Register(&Scenario{
		Name: "loops", Prop: "C12",
		Gen:    func(r *Rng, tier string, seed uint64) interface{} { return genC12(r, tier) },
		New:    func() interface{} { return &c12W{} },
		Exec:   func(w interface{}, x *Exec) *Outcome { return execC12(w.(*c12W), x) },
		Shrink: func(w interface{}) []interface{} { return shrinkC12(w.(*c12W)) },
		Real:   []string{"engine/logic/jump.go", "engine/queue", "engine/core processors", "engine/pipeline", "kvgraph", "jsonpath"},
		Stub:   []string{"storage engine (simkv behind kvi.KVInterface)"},
	})
}

func genC12(r *Rng, tier string) *c12W {
	w := &c12W{Run: GenRunCfg(r, []int{1, 1, 10, 50})}
	if r.Chance(40) {
		w.Run.Policy = int(simrt.PolStarve)
		w.Run.StarveSite = ""
		w.Run.StarveIdx = r.Intn(24)
	}
	if r.Chance(3) {
		// data volume: a pass larger than any capacity in the cycle
		var prog []*gripql.GraphStatement
		w.Graph, prog, w.Family = gen.LoopVolume(r)
		w.Volume = true
		w.Run.Policy = r.Intn(int(simrt.NumPolicies))
		if simrt.Policy(w.Run.Policy) == simrt.PolStarve {
			w.Run.Policy = int(simrt.PolRandom)
		}
		w.Prog = gen.StmtsJSON(prog)
		return w
	}
	w.Graph = gen.Graph(r, gen.GraphOpts{MaxV: 6, MaxE: 9, NoDangling: r.Chance(70)})
	prog, fam := gen.LoopProgram(r, w.Graph)
	w.Family = fam
	if fam != "no-emit" && r.Chance(15) {
		w.Limit = 1 + r.Intn(4)
		prog = append(prog, gen.Limit(uint32(w.Limit)))
	}
	w.Prog = gen.StmtsJSON(prog)
	return w
}

func shrinkC12(w *c12W) []interface{} {
	var out []interface{}
	cp := func() *c12W { n := &c12W{}; jsonClone(w, n); return n }
	if w.Volume {
		// thousands of elements: candidates are not materialised one by one;
		// the volume is the point of the case, only the schedule knobs shrink
		if w.Run.Policy != 0 || w.Run.CapDiv != 1 {
			n := cp()
			n.Run.Policy, n.Run.CapDiv, n.Run.StarveIdx, n.Run.StarveSite = 0, 1, 0, ""
			out = append(out, n)
		}
		return out
	}
	for i := len(w.Graph.E) - 1; i >= 0; i-- {
		n := cp()
		n.Graph.E = append(n.Graph.E[:i], n.Graph.E[i+1:]...)
		out = append(out, n)
	}
	for i := len(w.Graph.V) - 1; i >= 0; i-- {
		n := cp()
		n.Graph.V = append(n.Graph.V[:i], n.Graph.V[i+1:]...)
		out = append(out, n)
	}
	stmts, err := gen.StmtsFromJSON(w.Prog)
	if err == nil {
		for i := len(stmts) - 1; i >= 1; i-- {
			switch stmts[i].Statement.(type) {
			case *gripql.GraphStatement_Mark, *gripql.GraphStatement_Jump, *gripql.GraphStatement_Set, *gripql.GraphStatement_Increment, *gripql.GraphStatement_As:
				continue
			case *gripql.GraphStatement_Has:
				if strings.Contains(w.Prog[i], "$s.c") {
					continue // the loop bound
				}
			}
			n := cp()
			n.Prog = append(append([]string{}, w.Prog[:i]...), w.Prog[i+1:]...)
			if _, ok := stmts[i].Statement.(*gripql.GraphStatement_Limit); ok {
				n.Limit = 0
			}
			out = append(out, n)
		}
	}
	if w.Run.Policy != 0 {
		n := cp()
		n.Run.Policy, n.Run.StarveIdx, n.Run.StarveSite = 0, 0, ""
		out = append(out, n)
	}
	if w.Run.CapDiv != 1 {
		n := cp()
		n.Run.CapDiv = 1
		out = append(out, n)
	}
	return out
}

func execC12(w *c12W, x *Exec) *Outcome {
	o := &Outcome{}
	stmts, err := gen.StmtsFromJSON(w.Prog)
	if err != nil {
		o.Inconclusive = "infra:bad program json: " + err.Error()
		return o
	}
	o.Count("family:"+w.Family, 1)
	o.Count("policy:"+simrt.Policy(w.Run.Policy).String(), 1)
	if w.Run.CapDiv > 1 {
		o.Count("fault:buffer_scaling", 1)
	}
	if simrt.Policy(w.Run.Policy) == simrt.PolStarve {
		o.Count("fault:starve_one_goroutine", 1)
	}
	if w.Limit > 0 {
		o.Count("fault:limit_cancellation_after_loop", 1)
	}
	// reference result
	refStmts := stmts
	if w.Limit > 0 {
		refStmts = stmts[:len(stmts)-1]
	}
	g := model.FromData(w.Graph)
	spec, _ := model.EvalLoop(g, refStmts, 200000)
	if spec.Err != "" {
		o.Inconclusive = "reference: " + spec.Err
		return o
	}
	if len(spec.Rows) > 3000 && !w.Volume {
		o.Inconclusive = "reference result too large"
		return o
	}
	if w.Volume {
		o.Count("fault:pass_larger_than_cycle_capacity", 1)
	}
	if w.Limit > 0 {
		n := len(spec.Rows)
		if w.Limit < n {
			n = w.Limit
		}
		spec = model.Spec{N: n, Superset: spec.Rows}
	}
	cfg := w.Run.Sim()
	if cfg.MaxSteps == 0 {
		cfg.MaxSteps = 400000
	}
	if w.Volume {
		cfg.MaxSteps = 1200000 // a clean volume run needs about a tenth of this
	}
	tr := runTraversal(x, cfg, w.Graph, stmts, travOpts{CancelAfter: -1})
	if tr.Bubble.Verdict == simrt.Budget && simrt.Policy(w.Run.Policy) != simrt.PolRR {
		cfg.Policy = simrt.PolRR
		cfg.MaxSteps = 3000000
		if w.Volume {
			cfg.MaxSteps = 1500000
		}
		o.Count("reran_under_fair_policy", 1)
		tr = runTraversal(x, cfg, w.Graph, stmts, travOpts{CancelAfter: -1})
	}
	o.Fingerprint = hash64([]byte(fmt.Sprintf("%s/%s/%d/%x", model.Canon(w.Graph), strings.Join(w.Prog, ";"), w.Run.CapDiv, x.Stats.TraceHash)))
	o.NonTrivial = tr.CompileErr == "" && (len(spec.Rows) > 0 || len(spec.Superset) > 0)
	names := stmtNames(stmts)
	switch {
	case tr.Bubble.Infra != "":
		o.Inconclusive = "infra:" + tr.Bubble.Infra
	case tr.LoadErr != "":
		o.Inconclusive = "infra:load: " + tr.LoadErr
	case tr.CompileErr != "":
		o.Violation = &Violation{Signature: "C12/compile-rejected/" + w.Family, Detail: "well-typed loop program rejected: " + tr.CompileErr + " :: " + names}
	case len(tr.Bubble.Panics) > 0:
		o.Violation = &Violation{Signature: "C12/panic/" + panicSite(tr.Bubble.Panics[0]), Detail: names + ": " + tr.Bubble.Panics[0]}
	case tr.Bubble.Verdict == simrt.Budget:
		o.Inconclusive = "step budget"
	case tr.Bubble.Verdict == simrt.Deadlock || tr.Bubble.Verdict == simrt.Livelock:
		kind := "never-terminates"
		if tr.Closed {
			kind = "goroutines-left-after-stream-closed"
		}
		cls := fmt.Sprintf("C12/%s/%s", tr.Bubble.Verdict, kind)
		o.Violation = &Violation{Class: cls, Signature: cls + "/" + w.Family + limTag(w), Detail: fmt.Sprintf("%s: verdict %s after %d rows (reference %d rows), client saw close: %v; goroutines left: %v", names, tr.Bubble.Verdict, len(tr.Rows), len(spec.Rows), tr.Closed, tr.Bubble.LiveSites)}
	case !tr.Closed:
		o.Violation = &Violation{Signature: "C12/stream-not-closed", Detail: names}
	default:
		if d := spec.Check(tr.Rows); d != "" {
			kind := seqDiffKind(spec.Rows, tr.Rows)
			if !spec.Exact {
				kind = "limit-after-loop"
			}
			cls := "C12/rows/" + kind
			o.Violation = &Violation{Class: cls, Signature: cls + "/" + w.Family + limTag(w), Detail: names + ": " + d}
		}
	}
	return o
}

func limTag(w *c12W) string {
	if w.Limit > 0 {
		return "+limit"
	}
	return ""
}
