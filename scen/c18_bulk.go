//go:build verif

package scen

import (
	"sort"
	"fmt"
	"strings"

	"github.com/bmeg/grip/gdbi"
	"github.com/bmeg/grip/gripql"
	"github.com/bmeg/grip/util"
	"google.golang.org/protobuf/types/known/structpb"
	"verifsim/gen"
	"verifsim/model"
	"verifsim/simkv"
	"verifsim/simrt"
)

// C18 — bulk loading equals loading the same elements one by one.
// server-bulk: generated element streams (valid/invalid mix, repeated ids,
// several target graphs incl. a missing one and a schema graph, switches back
// and forth) go through the real GripServer.BulkAdd with an in-process client
// stream, under the scheduler (BulkAdd hands elements to a per-graph goroutine
// inside an open bulk transaction and switches streams by closing channels).
// streambatch: util.StreamBatch with batch sizes 1..100 against recording add
// functions. Oracle: refgraph after adding the valid elements one at a time.

type bulkElem struct {
	G string        `json:"g"`
	V *model.Vertex `json:"v,omitempty"`
	E *model.Edge   `json:"e,omitempty"`
}

type c18W struct {
	Run       RunCfg     `json:"run"`
	Mode      string     `json:"mode"` // server-bulk | streambatch
	Existing  []string   `json:"existing_graphs"`
	Stream    []bulkElem `json:"stream"`
	BatchSize int        `json:"batch_size,omitempty"`
	RecvErrAt int        `json:"recv_error_at"` // -1: the client stream ends normally
	AddFails  bool       `json:"add_fails,omitempty"` // streambatch: the driver's add functions report an error (disk full)
	LongRun   bool       `json:"long_run,omitempty"`
	// SetErrAt > 0: the (SetErrAt-1)-th Set issued inside the driver's bulk
	// write fails once with an I/O error (in the middle of some element)
	SetErrAt int `json:"bulk_set_error_at,omitempty"`
}

func init() {
	Register(&Scenario{
		Name: "server-bulk", Prop: "C18", Weight: 3,
		Gen:    func(r *Rng, tier string, seed uint64) interface{} { return genC18(r, tier, "server-bulk") },
		New:    func() interface{} { return &c18W{} },
		Exec:   func(w interface{}, x *Exec) *Outcome { return execC18(w.(*c18W), x) },
		Shrink: func(w interface{}) []interface{} { return shrinkC18(w.(*c18W)) },
		Real:   []string{"server.GripServer.BulkAdd", "kvgraph.BulkAdd", "kvindex", "gripql validation", "util.StreamBatch"},
		Stub:   []string{"storage engine (simkv)", "gRPC transport (in-process client stream)", "add functions of util.StreamBatch (recording)"},
	})
	Register(&Scenario{
		Name: "streambatch", Prop: "C18", Weight: 1,
		Gen:    func(r *Rng, tier string, seed uint64) interface{} { return genC18(r, tier, "streambatch") },
		New:    func() interface{} { return &c18W{} },
		Exec:   func(w interface{}, x *Exec) *Outcome { return execC18(w.(*c18W), x) },
		Shrink: func(w interface{}) []interface{} { return shrinkC18(w.(*c18W)) },
	})
}

func genC18(r *Rng, tier string, mode string) *c18W {
	w := &c18W{Run: GenRunCfg(r, []int{1, 10, 100}), Mode: mode, RecvErrAt: -1, Existing: []string{"g1"}}
	graphs := []string{"g1", "g1", "g1", "g2", "missing", "g1__schema__"}
	if r.Chance(60) {
		w.Existing = append(w.Existing, "g2")
	}
	if mode == "streambatch" {
		w.AddFails = r.Chance(25)
		graphs = []string{"g1", "g1", "g1", "g1", "other"}
		w.BatchSize = []int{1, 2, 3, 50, 100}[r.Intn(5)]
	}
	n := []int{0, 1, 2, 3, 5, 9, 20}[r.Intn(7)]
	if r.Chance(15) {
		c := 100 / maxi(1, w.Run.CapDiv)
		n = c + r.Intn(4) - 1
		if mode == "streambatch" {
			n = 2*w.BatchSize + r.Intn(3)
		}
		if n > 250 {
			n = 250
		}
	}
	if mode != "streambatch" && r.Chance(3) {
		// a long run of distinct elements for one graph: "any stream length",
		// beyond every chunk or flush size an implementation might use
		n = []int{1001, 1500, 2003, 4100}[r.Intn(4)]
		if tier != "thorough" && n > 2003 {
			n = 1001
		}
		w.LongRun = true
		for i := 0; i < n; i++ {
			el := bulkElem{G: "g1"}
			if i%3 != 2 {
				el.V = &model.Vertex{ID: fmt.Sprintf("u%d", i), Label: gen.VLabels[i%len(gen.VLabels)], Data: map[string]interface{}{"x": float64(i)}}
			} else {
				el.E = &model.Edge{ID: fmt.Sprintf("ue%d", i), Label: gen.ELabels[i%len(gen.ELabels)], From: fmt.Sprintf("u%d", i-1), To: fmt.Sprintf("u%d", i-2)}
			}
			w.Stream = append(w.Stream, el)
		}
		return w
	}
	cur := graphs[r.Intn(len(graphs))]
	for i := 0; i < n; i++ {
		if r.Chance(25) {
			cur = graphs[r.Intn(len(graphs))]
		}
		el := bulkElem{G: cur}
		if r.Chance(50) {
			el.V = gen.HVertex(r)
			if r.Chance(10) {
				switch r.Intn(3) {
				case 0:
					el.V.ID = ""
				case 1:
					el.V.Label = ""
				default:
					el.V.Data = map[string]interface{}{"_gid": 1.0}
				}
			}
		} else {
			el.E = gen.HEdge(r)
			el.E.From, el.E.To = gen.HVIDs[r.Intn(4)], gen.HVIDs[r.Intn(4)]
			if r.Chance(10) {
				switch r.Intn(3) {
				case 0:
					el.E.Label = ""
				case 1:
					el.E.From = ""
				default:
					el.E.To = ""
				}
			}
		}
		w.Stream = append(w.Stream, el)
	}
	if r.Chance(50) {
		// avoidance mode for the recorded edge re-add finding: an edge id keeps its endpoints and label
		seen := map[string]*model.Edge{}
		for _, el := range w.Stream {
			if el.E == nil || el.E.ID == "" {
				continue
			}
			if old, ok := seen[el.G+"/"+el.E.ID]; ok {
				if el.E.From != "" && el.E.To != "" && el.E.Label != "" {
					el.E.From, el.E.To, el.E.Label = old.From, old.To, old.Label
				}
			} else if el.E.From != "" && el.E.To != "" && el.E.Label != "" {
				seen[el.G+"/"+el.E.ID] = el.E
			}
		}
	}
	if mode == "server-bulk" && r.Chance(10) && n > 0 {
		w.SetErrAt = 1 + r.Intn(1+5*n)
	}
	if mode == "server-bulk" && r.Chance(8) && n > 0 {
		w.RecvErrAt = r.Intn(n)
	}
	return w
}

func shrinkC18(w *c18W) []interface{} {
	var out []interface{}
	cp := func() *c18W { n := &c18W{}; jsonClone(w, n); return n }
	if len(w.Stream) > 2 {
		n := cp()
		n.Stream = n.Stream[:len(n.Stream)/2]
		out = append(out, n)
	}
	for i := len(w.Stream) - 1; i >= 0 && len(w.Stream) <= 300; i-- { // long runs shrink by halves only
		n := cp()
		n.Stream = append(n.Stream[:i], n.Stream[i+1:]...)
		if n.RecvErrAt > i {
			n.RecvErrAt--
		}
		out = append(out, n)
	}
	if w.RecvErrAt >= 0 {
		n := cp()
		n.RecvErrAt = -1
		out = append(out, n)
	}
	if w.SetErrAt > 1 {
		n := cp()
		n.SetErrAt--
		out = append(out, n)
	}
	if w.Run.Policy != 0 || w.Run.CapDiv != 1 {
		n := cp()
		n.Run.Policy, n.Run.CapDiv, n.Run.StarveIdx, n.Run.StarveSite = 0, 1, 0, ""
		out = append(out, n)
	}
	return out
}

func toPV(v *model.Vertex) *gripql.Vertex {
	d, _ := structpb.NewStruct(v.Data)
	return &gripql.Vertex{Gid: v.ID, Label: v.Label, Data: d}
}
func toPE(e *model.Edge) *gripql.Edge {
	d, _ := structpb.NewStruct(e.Data)
	return &gripql.Edge{Gid: e.ID, Label: e.Label, From: e.From, To: e.To, Data: d}
}

func execC18(w *c18W, x *Exec) *Outcome {
	o := &Outcome{}
	b, _ := jsonMarshal(w)
	o.Fingerprint = hash64(b)
	o.NonTrivial = len(w.Stream) >= 2
	o.Count("mode:"+w.Mode, 1)
	o.Count("policy:"+simrt.Policy(w.Run.Policy).String(), 1)
	if w.Run.CapDiv > 1 {
		o.Count("fault:buffer_scaling", 1)
	}
	if w.RecvErrAt >= 0 {
		o.Count("fault:client_stream_error", 1)
	}
	if w.Mode == "streambatch" {
		return execStreamBatch(w, x, o)
	}
	// reference: the valid elements addressed to existing, writable graphs, one at a time
	ref := model.NewStore()
	for _, g := range w.Existing {
		ref.Graphs[g] = model.NewG()
	}
	wantInsert, invalid, unroutable := 0, 0, 0
	sawEdgeWithoutID := false
	readdChanged := false // recorded finding (C03): an edge id written again with other endpoints or label
	for i, el := range w.Stream {
		if w.RecvErrAt >= 0 && i >= w.RecvErrAt {
			break
		}
		if strings.HasSuffix(el.G, "__schema__") {
			unroutable++
			continue
		}
		g := ref.Graphs[el.G]
		if g == nil {
			unroutable++
			continue
		}
		if el.V != nil {
			if !validVertex(el.V) {
				invalid++
				continue
			}
			g.AddVertex(el.V)
			wantInsert++
		} else {
			if el.E.ID == "" {
				sawEdgeWithoutID = true
			}
			if !validEdge(el.E) && !(el.E.ID == "" && el.E.Label != "" && el.E.From != "" && el.E.To != "" && validData(el.E.Data)) {
				invalid++
				continue
			}
			if old, ok := g.E[el.E.ID]; ok && (old.From != el.E.From || old.To != el.E.To || old.Label != el.E.Label) {
				readdChanged = true
			}
			g.AddEdge(el.E)
			wantInsert++
		}
	}
	_ = sawEdgeWithoutID
	cfg := w.Run.Sim()
	if cfg.MaxSteps == 0 {
		cfg.MaxSteps = 2000000
	}
	if w.LongRun {
		cfg.MaxSteps = 30000000
		o.Count("fault:stream_longer_than_any_chunk", 1)
	}
	var result *gripql.BulkEditResult
	var handlerErr error
	var got *obs
	var theDisk *simkv.Disk
	u := universe{Graphs: []string{"g1", "g2", "missing"}, VIDs: gen.HVIDs, EIDs: gen.HEIDs, VLabels: gen.VLabels, ELabels: gen.ELabels}
	res := x.Bubble(cfg, func(s *simrt.Sim) func() bool {
		var srv *simServer
		var err error
		s.Passive(func() {
			srv, err = newSimServer(x.WorkDir, simkv.NewDisk(), false)
			if err == nil {
				for _, g := range w.Existing {
					srv.DB.AddGraph(g)
				}
				srv.Srv.VerifRefreshGraphMap()
				if w.SetErrAt > 0 {
					srv.Disk.BulkSetErrorAt = w.SetErrAt - 1
				}
				theDisk = srv.Disk
			}
		})
		if err != nil {
			handlerErr = err
			return nil
		}
		simrt.Go("client:bulk", func() {
			st := &bulkStream{RecvErrAt: w.RecvErrAt}
			for _, el := range w.Stream {
				ge := &gripql.GraphElement{Graph: el.G}
				if el.V != nil {
					ge.Vertex = toPV(el.V)
				} else {
					ge.Edge = toPE(el.E)
				}
				st.Elems = append(st.Elems, ge)
			}
			handlerErr = srv.Srv.BulkAdd(st)
			result = st.Result
			s.Passive(func() { got = observeReal(srv.DB, u, x.WorkDir) })
		})
		return nil
	}, nil)
	switch {
	case res.Infra != "":
		o.Inconclusive = "infra:" + res.Infra
		return o
	case len(res.Panics) > 0:
		o.Violation = &Violation{Class: "C18/server-death", Signature: "C18/server-death/" + panicSite(res.Panics[0]), Detail: "BulkAdd handler: " + res.Panics[0]}
		return o
	case res.Verdict == simrt.Budget:
		o.Inconclusive = "step budget"
		return o
	case res.Verdict != simrt.Done:
		o.Violation = &Violation{Class: "C18/never-returns", Signature: fmt.Sprintf("C18/never-returns/%s", res.Verdict), Detail: fmt.Sprintf("BulkAdd did not return: %v", res.LiveSites)}
		return o
	}
	if handlerErr != nil || result == nil || got == nil {
		o.Violation = &Violation{Signature: "C18/handler-error", Detail: fmt.Sprintf("BulkAdd returned error %v (result %v)", handlerErr, result)}
		return o
	}
	if w.SetErrAt > 0 && theDisk != nil && theDisk.Faults.Fired["bulk_set_error"] > 0 {
		// a storage error in the middle of an element: the load of that graph may
		// fail (its elements may all be missing) but nothing half-written may be
		// left, and whatever is stored must be an element that was streamed
		o.Count("fault:set_error_inside_bulk_write", 1)
		if msg := rawConsistency(theDisk); msg != "" {
			o.Violation = &Violation{Class: "C18/half-written-element", Signature: "C18/half-written-element/after-set-error-inside-bulk-write", Detail: fmt.Sprintf("Set number %d inside the bulk write failed: %s", w.SetErrAt-1, msg)}
			return o
		}
		if sawEdgeWithoutID {
			return o // generated edge ids: contents are not comparable
		}
		sent := map[string][]string{}
		for _, el := range w.Stream {
			if el.V != nil {
				sent[el.G] = append(sent[el.G], mvCanon(el.V))
			} else if el.E != nil {
				sent[el.G] = append(sent[el.G], meCanon(el.E, true))
			}
		}
		for _, k := range got.keys {
			if obsKind(k) != "vertex-listing" && obsKind(k) != "edge-listing" {
				continue
			}
			g := k[:strings.Index(k, "/")]
			items := append([]string{}, sent[g]...)
			sort.Slice(items, func(i, j int) bool { return len(items[i]) > len(items[j]) })
			rest := strings.Trim(got.vals[k], "[]")
			for _, it := range items {
				rest = strings.ReplaceAll(rest, it, "")
			}
			if strings.TrimSpace(rest) != "" {
				o.Violation = &Violation{Class: "C18/stored-element-not-streamed", Signature: "C18/stored-element-not-streamed/after-set-error-inside-bulk-write", Detail: fmt.Sprintf("%s holds something that no element of the stream is: %s (listing %s)", k, strings.TrimSpace(rest), got.vals[k])}
				return o
			}
		}
		return o
	}
	want := observeModel(ref, u)
	for _, k := range []string{"vertex-labels", "edge-labels"} {
		want.dropKind(k)
		got.dropKind(k)
	}
	// edges streamed without an id get a generated one: compare those graphs by shape only
	if sawEdgeWithoutID {
		o.Count("stream_with_generated_edge_ids", 1)
	} else if k, wv, gv := want.diff(got); k != "" {
		shape := "plain stream"
		if w.LongRun {
			shape = "long run of distinct elements"
		} else if readdChanged {
			shape = "stream re-adding an existing edge id with other endpoints or label"
		} else if unroutable > 0 {
			shape = "stream with elements for a missing or schema graph"
		} else if invalid > 0 {
			shape = "stream with invalid elements"
		}
		if w.RecvErrAt >= 0 {
			shape += "+client stream error"
		}
		v := &Violation{Class: "C18/state-differs", Signature: "C18/state-differs/obs=" + obsKind(k) + "/" + shape, Detail: fmt.Sprintf("after streaming %d elements: observable %s\n  one-by-one (expected): %s\n  bulk (got):            %s", len(w.Stream), k, wv, gv)}
		if x.IsKnown("C18", v.Signature) {
			o.KnownHits = append(o.KnownHits, v.Signature)
		}
		o.Violation = v
		return o
	}
	if w.RecvErrAt < 0 {
		if int(result.InsertCount) != wantInsert {
			o.Violation = &Violation{Class: "C18/insert-count", Signature: "C18/insert-count", Detail: fmt.Sprintf("InsertCount=%d, %d valid elements were addressed to existing graphs (stream of %d, %d invalid, %d unroutable)", result.InsertCount, wantInsert, len(w.Stream), invalid, unroutable)}
			return o
		}
		if invalid+unroutable > 0 && result.ErrorCount < 1 {
			o.Violation = &Violation{Signature: "C18/error-count-zero", Detail: fmt.Sprintf("ErrorCount=0 although %d invalid and %d unroutable elements were streamed", invalid, unroutable)}
			return o
		}
		if invalid+unroutable == 0 && result.ErrorCount != 0 {
			o.Violation = &Violation{Signature: "C18/error-count-spurious", Detail: fmt.Sprintf("ErrorCount=%d for a stream of valid elements", result.ErrorCount)}
			return o
		}
	}
	return o
}

func execStreamBatch(w *c18W, x *Exec, o *Outcome) *Outcome {
	var wantV, wantE []string
	bad := 0
	for _, el := range w.Stream {
		if el.G != "g1" {
			bad++
			continue
		}
		if el.V != nil {
			if !validVertex(el.V) {
				bad++
				continue
			}
			wantV = append(wantV, mvCanon(el.V))
		} else {
			if !validEdge(el.E) {
				if el.E.ID == "" && el.E.Label != "" && el.E.From != "" && el.E.To != "" {
					wantE = append(wantE, "generated-id")
					continue
				}
				bad++
				continue
			}
			wantE = append(wantE, meCanon(el.E, true))
		}
	}
	var gotV, gotE []string
	var maxBatch int
	var retErr error
	cfg := w.Run.Sim()
	if cfg.MaxSteps == 0 {
		cfg.MaxSteps = 2000000
	}
	res := x.Bubble(cfg, func(s *simrt.Sim) func() bool {
		in := make(chan *gdbi.GraphElement, 2)
		simrt.Go("client:producer", func() {
			for _, el := range w.Stream {
				ge := &gdbi.GraphElement{Graph: el.G}
				if el.V != nil {
					ge.Vertex = toGV(el.V)
				} else {
					ge.Edge = toGE(el.E)
				}
				hyield("h:prod-send")
				in <- ge
			}
			hyield("h:prod-close")
			close(in)
		})
		simrt.Go("client:streambatch", func() {
			retErr = util.StreamBatch(in, w.BatchSize, "g1",
				func(vs []*gdbi.Vertex) error {
					hyield("h:vertex-add")
					if len(vs) > maxBatch {
						maxBatch = len(vs)
					}
					for _, v := range vs {
						gotV = append(gotV, vCanon(v))
					}
					if w.AddFails {
						return fmt.Errorf("injected: disk full")
					}
					return nil
				},
				func(es []*gdbi.Edge) error {
					hyield("h:edge-add")
					for _, e := range es {
						if strings.HasPrefix(e.ID, "simuuid-") {
							gotE = append(gotE, "generated-id")
						} else {
							gotE = append(gotE, eCanon(e, true))
						}
					}
					if w.AddFails {
						return fmt.Errorf("injected: disk full")
					}
					return nil
				})
		})
		return nil
	}, nil)
	switch {
	case res.Infra != "":
		o.Inconclusive = "infra:" + res.Infra
	case len(res.Panics) > 0:
		o.Violation = &Violation{Signature: "C18/streambatch/panic/" + panicSite(res.Panics[0]), Detail: res.Panics[0]}
	case res.Verdict == simrt.Budget:
		o.Inconclusive = "step budget"
	case res.Verdict != simrt.Done:
		o.Violation = &Violation{Signature: fmt.Sprintf("C18/streambatch/%s", res.Verdict), Detail: fmt.Sprintf("%v", res.LiveSites)}
	case seqDiff(wantV, gotV) != "":
		o.Violation = &Violation{Class: "C18/streambatch/vertices", Signature: "C18/streambatch/vertices/" + seqDiffKind(wantV, gotV), Detail: "vertices handed to the add function, in order: " + seqDiff(wantV, gotV)}
	case seqDiff(wantE, gotE) != "":
		o.Violation = &Violation{Class: "C18/streambatch/edges", Signature: "C18/streambatch/edges/" + seqDiffKind(wantE, gotE), Detail: "edges handed to the add function, in order: " + seqDiff(wantE, gotE)}
	case maxBatch > w.BatchSize:
		o.Violation = &Violation{Signature: "C18/streambatch/batch-too-large", Detail: fmt.Sprintf("batch of %d with batch size %d", maxBatch, w.BatchSize)}
	case w.AddFails && len(gotV)+len(gotE) > 0 && retErr == nil:
		o.Violation = &Violation{Signature: "C18/streambatch/driver-error-swallowed", Detail: "the add functions failed but StreamBatch returned nil"}
	case w.AddFails:
		o.Count("fault:driver_add_error", 1)
	case bad > 0 && retErr == nil:
		o.Violation = &Violation{Signature: "C18/streambatch/errors-not-reported", Detail: fmt.Sprintf("%d invalid or foreign elements but StreamBatch returned nil", bad)}
	case bad == 0 && retErr != nil:
		o.Violation = &Violation{Signature: "C18/streambatch/spurious-error", Detail: retErr.Error()}
	}
	return o
}
