package scen

import (
	"fmt"
	"os"
	"sort"
	"strings"
)

// Race reports of the -race worker are written by the runtime to
// $VSIM_RACELOG.<pid>; after every case the worker reads what was appended and
// keeps the reports whose two conflicting accesses are both in repository
// code (a harness frame on top of either access means the harness's own
// unsynchronised bookkeeping, which is not the subject).

type raceReport struct {
	sig  string
	text string
}

var raceOff int64

func newRaceReports() []raceReport {
	base := os.Getenv("VSIM_RACELOG")
	if base == "" {
		return nil
	}
	path := fmt.Sprintf("%s.%d", base, os.Getpid())
	f, err := os.Open(path)
	if err != nil {
		return nil
	}
	defer f.Close()
	st, err := f.Stat()
	if err != nil || st.Size() <= raceOff {
		return nil
	}
	buf := make([]byte, st.Size()-raceOff)
	f.ReadAt(buf, raceOff)
	raceOff = st.Size()
	var out []raceReport
	for _, blk := range strings.Split(string(buf), "==================") {
		if !strings.Contains(blk, "WARNING: DATA RACE") {
			continue
		}
		if r, ok := parseRace(blk); ok {
			out = append(out, r)
		}
	}
	return out
}

func parseRace(blk string) (raceReport, bool) {
	lines := strings.Split(blk, "\n")
	var locs []string
	for i := 0; i < len(lines); i++ {
		l := lines[i]
		isAccess := (strings.HasPrefix(l, "Read at") || strings.HasPrefix(l, "Write at") || strings.HasPrefix(l, "Previous read at") || strings.HasPrefix(l, "Previous write at") ||
			strings.HasPrefix(l, "Atomic") || strings.HasPrefix(l, "Previous atomic")) && strings.Contains(l, "by ")
		if !isAccess {
			continue
		}
		loc := ""
		for j := i + 1; j < len(lines) && strings.HasPrefix(lines[j], "  "); j++ {
			fn := strings.TrimSpace(lines[j])
			if strings.HasPrefix(fn, "/") || fn == "" { // file:line
				continue
			}
			if k := strings.LastIndex(fn, "("); k > 0 {
				fn = fn[:k]
			}
			if strings.HasPrefix(fn, "runtime.") || strings.HasPrefix(fn, "sync.") || strings.HasPrefix(fn, "sync/atomic.") || strings.HasPrefix(fn, "internal/") {
				continue
			}
			if strings.HasPrefix(fn, "verifsim/") {
				loc = "" // harness on top: not repository code
				break
			}
			if strings.HasPrefix(fn, "github.com/bmeg/grip/") {
				loc = strings.TrimPrefix(fn, "github.com/bmeg/grip/")
				break
			}
			// third-party frame: keep looking for the repository caller
		}
		if loc == "" {
			return raceReport{}, false
		}
		locs = append(locs, loc)
	}
	if len(locs) < 2 {
		return raceReport{}, false
	}
	locs = locs[:2]
	sort.Strings(locs)
	if len(blk) > 4000 {
		blk = blk[:4000]
	}
	return raceReport{sig: locs[0] + "|" + locs[1], text: strings.TrimSpace(blk)}, true
}
