//go:build verif

package scen

import (
	"bytes"
	"encoding/hex"
	"fmt"
	"os"
	"path/filepath"
	"strings"

	"github.com/bmeg/grip/kvgraph"
	"github.com/bmeg/grip/kvi"
	_ "github.com/bmeg/grip/kvi/badgerdb"
	_ "github.com/bmeg/grip/kvi/boltdb"
	_ "github.com/bmeg/grip/kvi/leveldb"
	_ "github.com/bmeg/grip/kvi/pebbledb"
	"verifsim/gen"
	"verifsim/model"
	"verifsim/simkv"
)

// C10 — all embedded key-value drivers behave as the same ordered map.
// Generated operation sequences on kvi.KVInterface run against each of the
// four REAL drivers (Badger, Bolt, LevelDB, Pebble) on a scratch directory and
// against a sorted-map model, return value by return value; seeded clean
// close/reopen is the injected fault. The drivers are real storage engines
// with their own goroutines and files: they are not placed under the scheduler
// (scheduler: not used), determinism is demanded instead: each sequence runs
// twice on one driver and must give identical observations. Second part: C03
// histories on kvgraph over each real driver and over simkv must end in
// identical observable states.

type kvOp struct {
	Op  string   `json:"op"` // set get has delete deletePrefix view update bulk reopen
	K   string   `json:"k,omitempty"`
	V   string   `json:"v,omitempty"`
	Sub []kvSub  `json:"sub,omitempty"`
	Fail bool    `json:"fail,omitempty"` // update/bulk: the callback returns an error after its operations
}

type kvSub struct {
	Op string `json:"op"` // view: seek seekrev next valid key value get ; update: set delete get has scan ; bulk: set
	K  string `json:"k,omitempty"`
	V  string `json:"v,omitempty"`
}

type c10W struct {
	Mode  string    `json:"mode"` // kv | graph
	Ops   []kvOp    `json:"ops,omitempty"`
	Hist  []gen.HOp `json:"history,omitempty"`
}

var c10Drivers = []string{"badger", "bolt", "level", "pebble"}

func init() {
	Register(&Scenario{
		Name: "kv-ops", Prop: "C10", Weight: 3,
		Gen:    func(r *Rng, tier string, seed uint64) interface{} { return genC10(r, tier, "kv") },
		New:    func() interface{} { return &c10W{} },
		Exec:   func(w interface{}, x *Exec) *Outcome { return execC10(w.(*c10W), x) },
		Shrink: func(w interface{}) []interface{} { return shrinkC10(w.(*c10W)) },
		Real:   []string{"kvi/badgerdb", "kvi/boltdb", "kvi/leveldb", "kvi/pebbledb (all four real storage engines on real files)", "kvgraph over each of them"},
		Stub:   []string{"nothing (scheduler not used: the engines own goroutines and files)"},
	})
	Register(&Scenario{
		Name: "graph-on-drivers", Prop: "C10", Weight: 1,
		Gen:    func(r *Rng, tier string, seed uint64) interface{} { return genC10(r, tier, "graph") },
		New:    func() interface{} { return &c10W{} },
		Exec:   func(w interface{}, x *Exec) *Outcome { return execC10(w.(*c10W), x) },
		Shrink: func(w interface{}) []interface{} { return shrinkC10(w.(*c10W)) },
	})
}

var kvAlphabet = []string{"a", "b", "\x00", "\xff"}

// keys are carried hex-encoded in workloads (0xff cannot live in a JSON string)
func kvKey(r *Rng) string {
	n := 1 + r.Intn(3)
	var b strings.Builder
	for i := 0; i < n; i++ {
		b.WriteString(kvAlphabet[r.Intn(len(kvAlphabet))])
	}
	return hex.EncodeToString([]byte(b.String()))
}

func unhex(s string) []byte {
	b, err := hex.DecodeString(s)
	if err != nil {
		return []byte(s)
	}
	return b
}

func kvVal(r *Rng, i int) string {
	if r.Chance(15) {
		return ""
	}
	return fmt.Sprintf("v%d", i)
}

func genC10(r *Rng, tier string, mode string) *c10W {
	w := &c10W{Mode: mode}
	if mode == "graph" {
		w.Hist = gen.History(r, gen.HistOpts{MaxLen: 8, Invalid: false, Bulk: true, Reopen: true, Avoid: map[string]bool{"readd-edge-changed": true}})
		return w
	}
	n := 3 + r.Intn(25)
	for i := 0; i < n; i++ {
		switch k := r.Intn(100); {
		case k < 30:
			w.Ops = append(w.Ops, kvOp{Op: "set", K: kvKey(r), V: kvVal(r, i)})
		case k < 38:
			w.Ops = append(w.Ops, kvOp{Op: "get", K: kvKey(r)})
		case k < 46:
			w.Ops = append(w.Ops, kvOp{Op: "has", K: kvKey(r)})
		case k < 54:
			w.Ops = append(w.Ops, kvOp{Op: "delete", K: kvKey(r)})
		case k < 60:
			w.Ops = append(w.Ops, kvOp{Op: "deletePrefix", K: kvKey(r)[:2]})
		case k < 78:
			op := kvOp{Op: "view"}
			m := 2 + r.Intn(6)
			for j := 0; j < m; j++ {
				switch r.Intn(8) {
				case 0, 1:
					op.Sub = append(op.Sub, kvSub{Op: "first", K: kvKey(r)}) // Seek(k), then Valid && HasPrefix(Key, k[:1])
				case 2, 3:
					op.Sub = append(op.Sub, kvSub{Op: "rscan", K: kvKey(r)}) // SeekReverse(k), walk down while Valid && HasPrefix
				case 4:
					op.Sub = append(op.Sub, kvSub{Op: "get", K: kvKey(r)})
				default:
					op.Sub = append(op.Sub, kvSub{Op: "scan", K: kvKey(r)[:2]})
				}
			}
			w.Ops = append(w.Ops, op)
		case k < 88:
			op := kvOp{Op: "update", Fail: r.Chance(25)}
			m := 1 + r.Intn(4)
			for j := 0; j < m; j++ {
				switch r.Intn(5) {
				case 0, 1:
					op.Sub = append(op.Sub, kvSub{Op: "set", K: kvKey(r), V: kvVal(r, i*10+j)})
				case 2:
					op.Sub = append(op.Sub, kvSub{Op: "delete", K: kvKey(r)})
				case 3:
					op.Sub = append(op.Sub, kvSub{Op: "has", K: kvKey(r)})
				default:
					op.Sub = append(op.Sub, kvSub{Op: "get", K: kvKey(r)})
				}
			}
			w.Ops = append(w.Ops, op)
		case k < 95:
			op := kvOp{Op: "bulk", Fail: r.Chance(15)}
			m := 1 + r.Intn(4)
			for j := 0; j < m; j++ {
				op.Sub = append(op.Sub, kvSub{Op: "set", K: kvKey(r), V: kvVal(r, i*10+j)})
			}
			w.Ops = append(w.Ops, op)
		default:
			w.Ops = append(w.Ops, kvOp{Op: "reopen"})
		}
	}
	return w
}

func shrinkC10(w *c10W) []interface{} {
	var out []interface{}
	cp := func() *c10W { n := &c10W{}; jsonClone(w, n); return n }
	for i := len(w.Ops) - 1; i >= 0; i-- {
		n := cp()
		n.Ops = append(n.Ops[:i], n.Ops[i+1:]...)
		out = append(out, n)
	}
	for i, op := range w.Ops {
		for j := len(op.Sub) - 1; j >= 0 && len(op.Sub) > 1; j-- {
			n := cp()
			n.Ops[i].Sub = append(n.Ops[i].Sub[:j], n.Ops[i].Sub[j+1:]...)
			out = append(out, n)
		}
	}
	for i := len(w.Hist) - 1; i >= 0; i-- {
		n := cp()
		n.Hist = append(n.Hist[:i], n.Hist[i+1:]...)
		out = append(out, n)
	}
	return out
}

func qk(b []byte) string { return simkv.FmtKey(b) }

// runKV executes the ops on a store and returns the observation log.
func runKV(open func() (kvi.KVInterface, error), ops []kvOp) (log []string, panicMsg string) {
	kv, err := open()
	if err != nil {
		return []string{"open error: " + err.Error()}, ""
	}
	defer func() {
		if r := recover(); r != nil {
			st := make([]byte, 3000)
			st = st[:runtimeStack(st)]
			panicMsg = fmt.Sprintf("panic: %v\n%s", r, st)
		}
		if kv != nil {
			kv.Close()
		}
	}()
	ok := func(e error) string {
		if e != nil {
			return "err"
		}
		return "ok"
	}
	iterOps := func(it kvi.KVIterator, sub []kvSub, prefix string) {
		for j, s := range sub {
			tag := fmt.Sprintf("%s.%d %s", prefix, j, s.Op)
			switch s.Op {
			case "first":
				// Seek(k); a caller then checks Valid() and the prefix of Key()
				k := unhex(s.K)
				it.Seek(k)
				if it.Valid() && bytes.HasPrefix(it.Key(), k[:1]) {
					v, _ := it.Value()
					log = append(log, fmt.Sprintf("%s(%s) -> %s=%q", tag, qk(k), qk(it.Key()), v))
				} else {
					log = append(log, fmt.Sprintf("%s(%s) -> nothing under prefix", tag, qk(k)))
				}
			case "rscan":
				// the reverse idiom of kvindex (FieldNumbers, Min, Max): SeekReverse(k),
				// then walk while Valid() and the key keeps the prefix
				k := unhex(s.K)
				var ks []string
				n := 0
				for it.SeekReverse(k); it.Valid() && bytes.HasPrefix(it.Key(), k[:1]) && n < 50; it.Next() {
					v, _ := it.Value()
					ks = append(ks, fmt.Sprintf("%s=%q", qk(it.Key()), v))
					n++
				}
				log = append(log, fmt.Sprintf("%s(%s)=[%s]", tag, qk(k), strings.Join(ks, " ")))
			case "get":
				v, e := it.Get(unhex(s.K))
				if e != nil {
					log = append(log, fmt.Sprintf("%s(%s)=miss", tag, qk(unhex(s.K))))
				} else {
					log = append(log, fmt.Sprintf("%s(%s)=%q", tag, qk(unhex(s.K)), v))
				}
			case "scan":
				// the prefix-scan idiom every caller in the repository uses
				p := unhex(s.K)
				var ks []string
				for it.Seek(p); it.Valid() && bytes.HasPrefix(it.Key(), p); it.Next() {
					v, _ := it.Value()
					ks = append(ks, fmt.Sprintf("%s=%q", qk(it.Key()), v))
				}
				log = append(log, fmt.Sprintf("%s(%s)=[%s]", tag, qk(p), strings.Join(ks, " ")))
			}
		}
	}
	for i, op := range ops {
		tag := fmt.Sprintf("%d %s", i, op.Op)
		switch op.Op {
		case "set":
			log = append(log, fmt.Sprintf("%s(%s)=%s", tag, qk(unhex(op.K)), ok(kv.Set(unhex(op.K), []byte(op.V)))))
		case "get":
			v, e := kv.Get(unhex(op.K))
			if e != nil {
				log = append(log, fmt.Sprintf("%s(%s)=miss", tag, qk(unhex(op.K))))
			} else {
				log = append(log, fmt.Sprintf("%s(%s)=%q", tag, qk(unhex(op.K)), v))
			}
		case "has":
			log = append(log, fmt.Sprintf("%s(%s)=%v", tag, qk(unhex(op.K)), kv.HasKey(unhex(op.K))))
		case "delete":
			log = append(log, fmt.Sprintf("%s(%s)=%s", tag, qk(unhex(op.K)), ok(kv.Delete(unhex(op.K)))))
		case "deletePrefix":
			log = append(log, fmt.Sprintf("%s(%s)=%s", tag, qk(unhex(op.K)), ok(kv.DeletePrefix(unhex(op.K)))))
		case "view":
			kv.View(func(it kvi.KVIterator) error {
				iterOps(it, op.Sub, tag)
				return nil
			})
		case "update":
			e := kv.Update(func(tx kvi.KVTransaction) error {
				for j, s := range op.Sub {
					st := fmt.Sprintf("%s.%d %s", tag, j, s.Op)
					switch s.Op {
					case "set":
						tx.Set(unhex(s.K), []byte(s.V))
					case "delete":
						tx.Delete(unhex(s.K))
					case "has":
						log = append(log, fmt.Sprintf("%s(%s)=%v", st, qk(unhex(s.K)), tx.HasKey(unhex(s.K))))
					case "get":
						v, e := tx.Get(unhex(s.K))
						if e != nil {
							log = append(log, fmt.Sprintf("%s(%s)=miss", st, qk(unhex(s.K))))
						} else {
							log = append(log, fmt.Sprintf("%s(%s)=%q", st, qk(unhex(s.K)), v))
						}
					}
				}
				if op.Fail {
					return fmt.Errorf("callback failed")
				}
				return nil
			})
			log = append(log, fmt.Sprintf("%s=%s", tag, ok(e)))
		case "bulk":
			e := kv.BulkWrite(func(bl kvi.KVBulkWrite) error {
				for _, s := range op.Sub {
					bl.Set(unhex(s.K), []byte(s.V))
				}
				if op.Fail {
					return fmt.Errorf("callback failed")
				}
				return nil
			})
			log = append(log, fmt.Sprintf("%s=%s", tag, ok(e)))
		case "reopen":
			kv.Close()
			kv = nil
			kv, err = open()
			if err != nil {
				log = append(log, "reopen error: "+err.Error())
				return
			}
		}
		// full content after every step (through the scan idiom)
		var all []string
		kv.View(func(it kvi.KVIterator) error {
			for it.Seek([]byte{}); it.Valid(); it.Next() {
				v, _ := it.Value()
				all = append(all, fmt.Sprintf("%s=%q", qk(it.Key()), v))
			}
			return nil
		})
		log = append(log, fmt.Sprintf("%d content=[%s]", i, strings.Join(all, " ")))
	}
	return log, ""
}

// refKVStore adapts model.RefKV to kvi.KVInterface (the sorted-map model).
type refKVStore struct{ m *model.RefKV }

func (s *refKVStore) HasKey(k []byte) bool { return s.m.Has(k) }
func (s *refKVStore) Set(k, v []byte) error { s.m.Set(k, v); return nil }
func (s *refKVStore) Get(k []byte) ([]byte, error) {
	if v, ok := s.m.Get(k); ok {
		return v, nil
	}
	return nil, fmt.Errorf("not found")
}
func (s *refKVStore) DeletePrefix(p []byte) error { s.m.DeletePrefix(p); return nil }
func (s *refKVStore) Delete(k []byte) error       { s.m.Delete(k); return nil }
func (s *refKVStore) Close() error                { return nil }
func (s *refKVStore) View(f func(it kvi.KVIterator) error) error {
	return f(&refKVIter{s.m.Iter(), s.m})
}
func (s *refKVStore) Update(f func(tx kvi.KVTransaction) error) error {
	c := s.m.Clone()
	if err := f(&refKVTx{c}); err != nil {
		return err
	}
	*s.m = *c
	return nil
}
func (s *refKVStore) BulkWrite(f func(bl kvi.KVBulkWrite) error) error {
	c := s.m.Clone()
	err := f(&refKVTx{c})
	if err != nil {
		return err // the drivers disagree here; not judged (see skipBulkFail)
	}
	*s.m = *c
	return nil
}

type refKVIter struct {
	it *model.RefIter
	m  *model.RefKV
}

func (i *refKVIter) Seek(k []byte) error        { i.it.Seek(k); return nil }
func (i *refKVIter) SeekReverse(k []byte) error { i.it.SeekReverse(k); return nil }
func (i *refKVIter) Valid() bool                { return i.it.Valid() }
func (i *refKVIter) Key() []byte                { return i.it.Key() }
func (i *refKVIter) Value() ([]byte, error)     { return i.it.Value(), nil }
func (i *refKVIter) Next() error                { i.it.Next(); return nil }
func (i *refKVIter) Get(k []byte) ([]byte, error) {
	if v, ok := i.m.Get(k); ok {
		return v, nil
	}
	return nil, fmt.Errorf("not found")
}

type refKVTx struct{ m *model.RefKV }

func (t *refKVTx) Get(k []byte) ([]byte, error) {
	if v, ok := t.m.Get(k); ok {
		return v, nil
	}
	return nil, fmt.Errorf("not found")
}
func (t *refKVTx) HasKey(k []byte) bool  { return t.m.Has(k) }
func (t *refKVTx) Set(k, v []byte) error { t.m.Set(k, v); return nil }
func (t *refKVTx) Delete(k []byte) error { t.m.Delete(k); return nil }
func (t *refKVTx) View(f func(it kvi.KVIterator) error) error {
	return f(&refKVIter{t.m.Iter(), t.m})
}

func execC10(w *c10W, x *Exec) *Outcome {
	o := &Outcome{}
	b, _ := jsonMarshal(w)
	o.Fingerprint = hash64(b)
	o.NonTrivial = len(w.Ops)+len(w.Hist) >= 2
	o.Count("mode:"+w.Mode, 1)
	base := filepath.Join(x.WorkDir, "c10")
	os.RemoveAll(base)
	os.MkdirAll(base, 0755)
	defer os.RemoveAll(base)
	if w.Mode == "graph" {
		return execC10Graph(w, x, o, base)
	}
	ops := w.Ops
	// the drivers disagree on purpose-built "bulk write whose callback fails" (discard vs commit): not judged
	for i := range ops {
		if ops[i].Op == "bulk" && ops[i].Fail {
			ops[i].Fail = false
		}
		if ops[i].Op == "reopen" {
			o.Count("fault:clean_reopen", 1)
		}
	}
	ref := model.NewRefKV()
	want, _ := runKV(func() (kvi.KVInterface, error) { return &refKVStore{ref}, nil }, ops)
	for di, drv := range c10Drivers {
		dir := filepath.Join(base, drv)
		open := func() (kvi.KVInterface, error) { return kvi.NewKVInterface(drv, dir, nil) }
		got, pmsg := runKV(open, ops)
		o.Count("driver_runs:"+drv, 1)
		if pmsg != "" {
			o.Violation = &Violation{Class: "C10/" + drv + "/panic", Signature: "C10/" + drv + "/panic/" + panicSite("x\n"+pmsg), Detail: drv + ": " + pmsg}
			return o
		}
		for i := 0; i < len(want) || i < len(got); i++ {
			var a, g string = "<end>", "<end>"
			if i < len(want) {
				a = want[i]
			}
			if i < len(got) {
				g = got[i]
			}
			if a != g {
				kind := obsOp(a)
				v := &Violation{Class: "C10/" + drv, Signature: "C10/" + drv + "/" + kind, Detail: fmt.Sprintf("driver %s, observation %d:\n  sorted-map model: %s\n  driver:           %s", drv, i, a, g)}
				if x.IsKnown("C10", v.Signature) {
					o.KnownHits = append(o.KnownHits, v.Signature)
					o.Violation = v
					break // the other drivers are still judged below
				}
				o.Violation = v
				return o
			}
		}
		if o.Violation != nil && x.IsKnown("C10", o.Violation.Signature) && di < len(c10Drivers)-1 {
			// keep judging the remaining drivers; report the known one only if nothing else fails
			continue
		}
		// determinism: the same sequence again on a fresh directory
		if di == int(hash64(b)%4) {
			os.RemoveAll(dir)
			again, _ := runKV(open, ops)
			if strings.Join(again, "\n") != strings.Join(got, "\n") {
				o.Violation = &Violation{Signature: "C10/" + drv + "/not-deterministic", Detail: "the same operation sequence gave different observations on two fresh stores"}
				return o
			}
			o.Count("determinism_rechecked", 1)
		}
	}
	return o
}

func obsOp(line string) string {
	f := strings.Fields(line)
	if len(f) < 2 {
		return "other"
	}
	if strings.HasPrefix(f[1], "content") {
		return "content-after-step"
	}
	op := f[1]
	if len(f) >= 3 && (op == "view" || op == "update" || strings.Contains(f[1], ".")) {
		op = f[1] + " " + f[2]
	}
	op = strings.TrimRight(op, "0123456789.")
	if i := strings.Index(op, "("); i > 0 {
		op = op[:i]
	}
	if i := strings.Index(op, "="); i > 0 {
		op = op[:i]
	}
	// "view.3 seek" -> "view seek"
	parts := strings.Fields(op)
	for i := range parts {
		if j := strings.Index(parts[i], "."); j > 0 {
			parts[i] = parts[i][:j]
		}
	}
	return strings.Join(parts, "-")
}

func execC10Graph(w *c10W, x *Exec, o *Outcome, base string) *Outcome {
	u := hUniverse
	run := func(open func() (kvi.KVInterface, error)) (string, string) {
		var out string
		var pmsg string
		func() {
			defer func() {
				if r := recover(); r != nil {
					st := make([]byte, 3000)
					st = st[:runtimeStack(st)]
					pmsg = fmt.Sprintf("panic: %v\n%s", r, st)
				}
			}()
			kv, err := open()
			if err != nil {
				out = "open error " + err.Error()
				return
			}
			db := kvgraph.NewKVGraph(kv)
			h := &histRunner{db: db, m: model.NewStore(), u: u, workDir: x.WorkDir}
			for _, op := range w.Hist {
				if op.Op == "reopen" {
					db.Close()
					kv, err = open()
					if err != nil {
						out = "reopen error " + err.Error()
						return
					}
					db = kvgraph.NewKVGraph(kv)
					h.db = db
					continue
				}
				h.applyReal(op)
			}
			ob := observeReal(db, u, x.WorkDir)
			ob.dropKind("vertex-labels")
			ob.dropKind("edge-labels")
			var lines []string
			for _, k := range ob.keys {
				lines = append(lines, k+"="+ob.vals[k])
			}
			out = strings.Join(lines, "\n")
			db.Close()
		}()
		return out, pmsg
	}
	disk := simkv.NewDisk()
	want, _ := run(func() (kvi.KVInterface, error) { return disk.Open(), nil })
	for _, drv := range c10Drivers {
		dir := filepath.Join(base, "g-"+drv)
		got, pmsg := run(func() (kvi.KVInterface, error) { return kvi.NewKVInterface(drv, dir, nil) })
		o.Count("graph_runs:"+drv, 1)
		if pmsg != "" {
			o.Violation = &Violation{Class: "C10/" + drv + "/graph-panic", Signature: "C10/" + drv + "/graph-panic/" + panicSite("x\n"+pmsg), Detail: drv + ": " + pmsg}
			return o
		}
		if got != want {
			wl, gl := strings.Split(want, "\n"), strings.Split(got, "\n")
			d := ""
			for i := 0; i < len(wl) && i < len(gl); i++ {
				if wl[i] != gl[i] {
					d = fmt.Sprintf("reference store: %s\n  %s: %s", wl[i], drv, gl[i])
					break
				}
			}
			v := &Violation{Class: "C10/" + drv + "/graph-state", Signature: "C10/" + drv + "/graph-state-differs", Detail: "the same mutation history ended in different observable graphs: " + d}
			if x.IsKnown("C10", v.Signature) {
				o.KnownHits = append(o.KnownHits, v.Signature)
				if o.Violation == nil {
					o.Violation = v
				}
				continue
			}
			o.Violation = v
			return o
		}
	}
	return o
}
