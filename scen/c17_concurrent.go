//go:build verif

package scen

import (
	"context"
	"fmt"
	"sort"
	"strings"

	"github.com/bmeg/grip/gripql"
	"github.com/bmeg/grip/kvgraph"
	"verifsim/gen"
	"verifsim/model"
	"verifsim/simkv"
	"verifsim/simrt"
)

// C17 — concurrent clients cannot corrupt or crash the server.
// One real GripServer (handlers called directly, job storage attached) over
// kvgraph on the simulated disk; 2-4 simulated clients, each a seeded session
// over overlapping and disjoint ids. Every written value is unique, so each
// read is attributable to one write. Interleavings are explored at every yield
// point, including inside simkv calls. Oracles: no simulated process death;
// race-detector reports whose two accesses are in repository code; when all
// clients have returned the observable state equals the result of applying
// the acknowledged edits in SOME order consistent with each client's own
// order (bounded search); every element a reader saw carries a value some
// client wrote.

type cOp struct {
	Op    string `json:"op"` // addV addE delV delE addGraph delGraph bulk query getV labels graphs addSchema getSchema submit jobs
	G     string `json:"g,omitempty"`
	ID    string `json:"id,omitempty"`
	Label string `json:"label,omitempty"`
	Query string `json:"query,omitempty"` // V | V.out | E | V.count
}

type c17W struct {
	Run      RunCfg  `json:"run"`
	Sessions [][]cOp `json:"sessions"`
	// Restarted: the sessions meet a server that has just been started over an
	// existing database (graph g1 was created by an earlier incarnation): its
	// in-memory state (index field registry, timestamps, caches) is freshly
	// loaded, or lazily about to be
	Restarted bool `json:"restarted,omitempty"`
	// WriteErrAt >= 1: the (WriteErrAt-1)-th top-level storage write issued
	// after the sessions have started fails once with an I/O error (the store
	// keeps working, nobody restarts): the call it belongs to may fail, and a
	// failed call counts as unacknowledged
	WriteErrAt int `json:"write_err_at,omitempty"`
}

func init() {
	Register(&Scenario{
		Name: "sessions", Prop: "C17",
		Gen:    func(r *Rng, tier string, seed uint64) interface{} { return genC17(r, tier) },
		New:    func() interface{} { return &c17W{} },
		Exec:   func(w interface{}, x *Exec) *Outcome { return execC17(w.(*c17W), x) },
		Shrink: func(w interface{}) []interface{} { return shrinkC17(w.(*c17W)) },
		Real:   []string{"server handlers (edit, query, schema, job)", "engine", "kvgraph", "kvindex", "jobstorage", "timestamp"},
		Stub:   []string{"storage engine (simkv: atomic top-level writes, serialisable Update)", "gRPC transport (in-process streams)"},
	})
}

// edges have fixed endpoints and label per id (the recorded edge re-add finding is not the subject here)
var c17Edges = map[string][3]string{"e1": {"a", "b", "k"}, "e2": {"b", "c", "l"}, "e3": {"c", "a", "k"}, "e4": {"a", "a", "m"}}

func genC17(r *Rng, tier string) *c17W {
	w := &c17W{Run: GenRunCfg(r, []int{1, 1, 10}), Restarted: r.Chance(50)}
	nc := 2 + r.Intn(3)
	schemaTheme := r.Chance(15) // sessions that mostly upload and read schemas
	churnTheme := !schemaTheme && r.Chance(15)
	jobsTheme := !schemaTheme && !churnTheme && r.Chance(12) // everybody submits jobs at the same time
	if r.Chance(20) {
		w.WriteErrAt = 1 + r.Intn(30)
	}
	for c := 0; c < nc; c++ {
		n := 2 + r.Intn(5)
		var s []cOp
		for i := 0; i < n; i++ {
			g := "g1"
			if r.Chance(20) {
				g = "g2"
			}
			k := r.Intn(100)
			if schemaTheme && r.Chance(60) {
				k = 91 + r.Intn(5)
				g = "g1"
			}
			if jobsTheme && r.Chance(70) {
				k = 96 + r.Intn(4)
				g = "g1"
			}
			if churnTheme {
				// everybody works on the graph that is dropped and created again
				g = "g2"
				if r.Chance(35) {
					k = 52 + r.Intn(8)
				}
			}
			switch {
			case k < 22:
				s = append(s, cOp{Op: "addV", G: g, ID: Pick(r, []string{"a", "b", "c"}), Label: Pick(r, gen.VLabels)})
			case k < 38:
				s = append(s, cOp{Op: "addE", G: g, ID: Pick(r, []string{"e1", "e2", "e3", "e4"})})
			case k < 46:
				s = append(s, cOp{Op: "delV", G: g, ID: Pick(r, []string{"a", "b", "c"})})
			case k < 52:
				s = append(s, cOp{Op: "delE", G: g, ID: Pick(r, []string{"e1", "e2", "e3", "e4"})})
			case k < 56:
				s = append(s, cOp{Op: "addGraph", G: "g2"})
			case k < 58:
				s = append(s, cOp{Op: "delGraph", G: "g2"})
			case k < 60:
				// a graph dropped and created again by one client, back to back
				s = append(s, cOp{Op: "delGraph", G: "g2"}, cOp{Op: "addGraph", G: "g2"})
			case k < 66:
				s = append(s, cOp{Op: "bulk", G: g, ID: Pick(r, []string{"a", "b", "c"})})
			case k < 74:
				s = append(s, cOp{Op: "query", G: g, Query: Pick(r, []string{"V", "V.out", "E", "V.count", "V.hasLabel", "V.outENull", "V.inENull", "V.bothE", "V.out.in", "V.distinct.out.distinct"})})
			case k < 80:
				// a caching client: reads the graph's timestamp, then a listing, and keeps both
				s = append(s, cOp{Op: "cachedQuery", G: g, Query: Pick(r, []string{"V", "E"})})
			case k < 85:
				s = append(s, cOp{Op: "getV", G: g, ID: Pick(r, []string{"a", "b", "c"})})
			case k < 88:
				s = append(s, cOp{Op: "labels", G: g})
			case k < 91:
				s = append(s, cOp{Op: "graphs"})
			case k < 94:
				s = append(s, cOp{Op: "addSchema", G: g})
			case k < 96:
				s = append(s, cOp{Op: "getSchema", G: g})
			case k < 99:
				s = append(s, cOp{Op: "submit", G: g})
			default:
				s = append(s, cOp{Op: "jobs", G: g})
			}
		}
		w.Sessions = append(w.Sessions, s)
	}
	return w
}

func shrinkC17(w *c17W) []interface{} {
	var out []interface{}
	cp := func() *c17W { n := &c17W{}; jsonClone(w, n); return n }
	if w.WriteErrAt > 0 {
		n := cp()
		n.WriteErrAt = 0
		out = append(out, n)
	}
	for c := len(w.Sessions) - 1; c >= 0 && len(w.Sessions) > 1; c-- {
		n := cp()
		n.Sessions = append(n.Sessions[:c], n.Sessions[c+1:]...)
		out = append(out, n)
	}
	for c := range w.Sessions {
		for i := len(w.Sessions[c]) - 1; i >= 0; i-- {
			n := cp()
			n.Sessions[c] = append(n.Sessions[c][:i], n.Sessions[c][i+1:]...)
			out = append(out, n)
		}
	}
	return out
}

type c17Edit struct {
	op    cOp
	value string // unique written value
	acked bool
}

// c17Schema is one AddSchema call: the uploaded schema has two vertices whose
// ids are unique to the call, so a stored or served schema is attributable.
type c17Schema struct {
	g, val string
	acked  bool
}

func schemaOf(g, val string) *gripql.Graph {
	return &gripql.Graph{Graph: g, Vertices: []*gripql.Vertex{
		{Gid: val + ".x", Label: "A", Data: toPV(&model.Vertex{ID: "x", Label: "A", Data: map[string]interface{}{"w": val}}).Data},
		{Gid: val + ".y", Label: "B", Data: toPV(&model.Vertex{ID: "y", Label: "B", Data: map[string]interface{}{"w": val}}).Data},
	}}
}

// schemaWhole tells whether a list of schema vertex ids is exactly one upload.
func schemaWhole(ids string) (string, bool) {
	p := strings.Split(ids, ",")
	if len(p) != 2 || !strings.HasSuffix(p[0], ".x") || !strings.HasSuffix(p[1], ".y") {
		return "", false
	}
	v := strings.TrimSuffix(p[0], ".x")
	return v, v == strings.TrimSuffix(p[1], ".y")
}

func schemaIDs(g *gripql.Graph) string {
	var ids []string
	for _, v := range g.Vertices {
		ids = append(ids, v.Gid)
	}
	sort.Strings(ids)
	return strings.Join(ids, ",")
}

func isEdit(op string) bool {
	switch op {
	case "addV", "addE", "delV", "delE", "addGraph", "delGraph", "bulk":
		return true
	}
	return false
}

func applyEdit(s *model.Store, e c17Edit) {
	g := s.Graphs[e.op.G]
	switch e.op.Op {
	case "addGraph":
		if g == nil {
			s.Graphs[e.op.G] = model.NewG()
		}
	case "delGraph":
		delete(s.Graphs, e.op.G)
	case "addV", "bulk":
		if g != nil {
			g.AddVertex(&model.Vertex{ID: e.op.ID, Label: labelOf(e.op), Data: map[string]interface{}{"w": e.value}})
			if e.op.Op == "bulk" {
				g.AddVertex(&model.Vertex{ID: bulkSecond(e.op.ID), Label: labelOf(e.op), Data: map[string]interface{}{"w": e.value}})
			}
		}
	case "addE":
		if g != nil {
			ed := c17Edges[e.op.ID]
			g.AddEdge(&model.Edge{ID: e.op.ID, From: ed[0], To: ed[1], Label: ed[2], Data: map[string]interface{}{"w": e.value}})
		}
	case "delV":
		if g != nil {
			g.DelVertex(e.op.ID)
		}
	case "delE":
		if g != nil {
			g.DelEdge(e.op.ID)
		}
	}
}

// bulkSecond is the id of the second vertex of a bulk stream.
func bulkSecond(id string) string {
	switch id {
	case "a":
		return "b"
	case "b":
		return "c"
	}
	return "a"
}

func labelOf(op cOp) string {
	if op.Label == "" {
		return "A"
	}
	return op.Label
}

// someOrderMatches searches the interleavings of the clients' edits (each
// client's own order kept; unacknowledged edits may or may not have taken
// effect) for one whose final state shows the observed observables.
func someOrderMatches(edits [][]c17Edit, u universe, got *obs) bool {
	type key string
	seen := map[key]bool{}
	var rec func(pos []int, s *model.Store) bool
	rec = func(pos []int, s *model.Store) bool {
		done := true
		for c := range edits {
			if pos[c] < len(edits[c]) {
				done = false
			}
		}
		if done {
			want := observeModel(s, u)
			want.dropKind("vertex-labels")
			want.dropKind("edge-labels")
			k, _, _ := want.diff(got)
			return k == ""
		}
		kb := fmt.Sprint(pos) + "|" + storeDigest(s)
		if seen[key(kb)] {
			return false
		}
		seen[key(kb)] = true
		for c := range edits {
			if pos[c] >= len(edits[c]) {
				continue
			}
			e := edits[c][pos[c]]
			np := append([]int{}, pos...)
			np[c]++
			ns := s.Clone()
			applyEdit(ns, e)
			if rec(np, ns) {
				return true
			}
			if !e.acked { // an edit that reported an error may have had no effect
				if rec(np, s) {
					return true
				}
			}
		}
		return false
	}
	init := model.NewStore()
	init.Graphs["g1"] = model.NewG()
	return rec(make([]int, len(edits)), init)
}

func storeDigest(s *model.Store) string {
	var parts []string
	for _, gn := range s.GraphNames() {
		g := s.Graphs[gn]
		parts = append(parts, "G"+gn)
		for _, id := range g.VertexIDs() {
			parts = append(parts, mvCanon(g.V[id]))
		}
		for _, id := range g.EdgeIDs() {
			parts = append(parts, meCanon(g.E[id], true))
		}
	}
	return strings.Join(parts, ";")
}

func execC17once(w *c17W, x *Exec) *Outcome {
	o := &Outcome{}
	b, _ := jsonMarshal(w.Sessions)
	nedits := 0
	for _, s := range w.Sessions {
		for _, op := range s {
			o.Count("op:"+op.Op, 1)
			if isEdit(op.Op) {
				nedits++
			}
		}
	}
	o.Count("clients", len(w.Sessions))
	o.Count("policy:"+simrt.Policy(w.Run.Policy).String(), 1)
	cfg := w.Run.Sim()
	if cfg.MaxSteps == 0 {
		cfg.MaxSteps = 2000000
	}
	edits := make([][]c17Edit, len(w.Sessions))
	written := map[string]bool{}
	var badReads []string
	var got *obs
	// caching clients (C03's last clause under concurrency): an entry is
	// (graph, timestamp read first, listing read second); once everybody has
	// returned, an entry whose timestamp is still the graph's timestamp must
	// still be the listing. Holds when every element write touches the
	// timestamp after it became visible.
	type cacheEntry struct{ g, q, ts, rows string }
	var cache []cacheEntry
	staleCache := ""
	u := universe{Graphs: []string{"g1", "g2"}, VIDs: []string{"a", "b", "c"}, EIDs: []string{"e1", "e2", "e3", "e4"}, VLabels: gen.VLabels, ELabels: gen.ELabels, HideSchemaGraphs: true}
	var setupErr error
	returned := 0
	schemas := make([][]c17Schema, len(w.Sessions))
	servedSchema, storedSchema := "", "" // ids of the schema of g1 after quiescence ("" = none)
	badSchemaRead := ""
	jobOwner := map[string]string{} // job id -> the submission it was handed to
	sharedJob := ""
	var disk *simkv.Disk
	res := x.Bubble(cfg, func(s *simrt.Sim) func() bool {
		var srv *simServer
		s.Passive(func() {
			disk = simkv.NewDisk()
			if w.Restarted {
				kvgraph.NewKVGraph(disk.Open()).AddGraph("g1") // an earlier incarnation
			}
			srv, setupErr = newSimServer(cleanDir(x.WorkDir+"/srv"), disk, true)
			if setupErr == nil {
				if !w.Restarted {
					srv.DB.AddGraph("g1")
				}
				srv.Srv.VerifRefreshGraphMap()
			}
			if setupErr == nil && w.WriteErrAt > 0 {
				disk.Arm(-1, w.WriteErrAt-1, false)
			}
		})
		if setupErr != nil {
			return nil
		}
		// all values are known up front (unique per client and position)
		for c, sess := range w.Sessions {
			for i, op := range sess {
				if isEdit(op.Op) {
					written[fmt.Sprintf("c%d-%d", c, i)] = true
				}
				if op.Op == "addSchema" {
					written[fmt.Sprintf("c%d-%d#schema", c, i)] = true
				}
			}
		}
		checkRows := func(rows []string) {
			for _, r := range rows {
				if i := strings.Index(r, `"w":"`); i >= 0 {
					v := r[i+5:]
					if j := strings.Index(v, `"`); j >= 0 {
						v = v[:j]
					}
					if !written[v] {
						badReads = append(badReads, r)
					}
				}
			}
		}
		for c := range w.Sessions {
			c := c
			simrt.Go(fmt.Sprintf("client:session%d", c), func() {
				ctx := context.Background()
				for i, op := range w.Sessions[c] {
					val := fmt.Sprintf("c%d-%d", c, i)
					var err error
					switch op.Op {
					case "addV":
						_, err = srv.Srv.AddVertex(ctx, &gripql.GraphElement{Graph: op.G, Vertex: toPV(&model.Vertex{ID: op.ID, Label: labelOf(op), Data: map[string]interface{}{"w": val}})})
					case "addE":
						ed := c17Edges[op.ID]
						_, err = srv.Srv.AddEdge(ctx, &gripql.GraphElement{Graph: op.G, Edge: toPE(&model.Edge{ID: op.ID, From: ed[0], To: ed[1], Label: ed[2], Data: map[string]interface{}{"w": val}})})
					case "delV":
						_, err = srv.Srv.DeleteVertex(ctx, &gripql.ElementID{Graph: op.G, Id: op.ID})
					case "delE":
						_, err = srv.Srv.DeleteEdge(ctx, &gripql.ElementID{Graph: op.G, Id: op.ID})
					case "addGraph":
						_, err = srv.Srv.AddGraph(ctx, &gripql.GraphID{Graph: op.G})
					case "delGraph":
						_, err = srv.Srv.DeleteGraph(ctx, &gripql.GraphID{Graph: op.G})
					case "bulk":
						// two elements: the stream stays open across yields between them
						st := &bulkStream{RecvErrAt: -1, Elems: []*gripql.GraphElement{
							{Graph: op.G, Vertex: toPV(&model.Vertex{ID: op.ID, Label: labelOf(op), Data: map[string]interface{}{"w": val}})},
							{Graph: op.G, Vertex: toPV(&model.Vertex{ID: bulkSecond(op.ID), Label: labelOf(op), Data: map[string]interface{}{"w": val}})},
						}}
						err = srv.Srv.BulkAdd(st)
						if err == nil && (st.Result == nil || st.Result.InsertCount != 2 || st.Result.ErrorCount != 0) {
							err = fmt.Errorf("not inserted")
						}
					case "query":
						var q []*gripql.GraphStatement
						switch op.Query {
						case "V":
							q = gen.StmtsOf(gen.V())
						case "V.out":
							q = gen.StmtsOf(gen.V(), gen.Out())
						case "E":
							q = gen.StmtsOf(gen.E())
						case "V.hasLabel":
							q = gen.StmtsOf(gen.V(), gen.HasLabel("A"))
						case "V.outENull": // rows of edges that are not loaded until they are converted
							q = gen.StmtsOf(gen.V(), gen.OutENull())
						case "V.inENull":
							q = gen.StmtsOf(gen.V(), gen.InENull())
						case "V.bothE":
							q = gen.StmtsOf(gen.V(), gen.BothE())
						case "V.out.in":
							q = gen.StmtsOf(gen.V(), gen.Out(), gen.In())
						case "V.distinct.out.distinct": // two steps of one traversal ask the manager for temporary storage
							q = gen.StmtsOf(gen.V(), gen.Distinct(), gen.Out(), gen.Distinct())
						default:
							q = gen.StmtsOf(gen.V(), gen.Count())
						}
						ts := &traversalStream{}
						srv.Srv.Traversal(&gripql.GraphQuery{Graph: op.G, Query: q}, ts)
						checkRows(ts.Rows)
					case "cachedQuery":
						if t, e := srv.Srv.GetTimestamp(ctx, &gripql.GraphID{Graph: op.G}); e == nil && t != nil {
							q := gen.StmtsOf(gen.V())
							if op.Query == "E" {
								q = gen.StmtsOf(gen.E())
							}
							ts := &traversalStream{}
							if e := srv.Srv.Traversal(&gripql.GraphQuery{Graph: op.G, Query: q}, ts); e == nil {
								checkRows(ts.Rows)
								rows := append([]string{}, ts.Rows...)
								sort.Strings(rows)
								cache = append(cache, cacheEntry{op.G, op.Query, t.Timestamp, strings.Join(rows, "\n")})
							}
						}
					case "getV":
						if v, e := srv.Srv.GetVertex(ctx, &gripql.ElementID{Graph: op.G, Id: op.ID}); e == nil {
							checkRows([]string{model.Canon(vertexJSON(v))})
						}
					case "labels":
						srv.Srv.ListLabels(ctx, &gripql.GraphID{Graph: op.G})
					case "graphs":
						srv.Srv.ListGraphs(ctx, &gripql.Empty{})
					case "addSchema":
						_, e := srv.Srv.AddSchema(ctx, schemaOf(op.G, val))
						schemas[c] = append(schemas[c], c17Schema{g: op.G, val: val, acked: e == nil})
					case "getSchema":
						// a served schema is one upload, whole (never a mixture of two)
						if sc, e := srv.Srv.GetSchema(ctx, &gripql.GraphID{Graph: op.G}); e == nil && sc != nil && badSchemaRead == "" {
							ids := schemaIDs(sc)
							if val, ok := schemaWhole(ids); !ok || !written[val+"#schema"] {
								badSchemaRead = fmt.Sprintf("GetSchema(%s) returned vertices [%s]", op.G, ids)
							}
						}
					case "submit":
						if job, e := srv.submitUnary(&gripql.GraphQuery{Graph: op.G, Query: gen.StmtsOf(gen.V())}); e == nil && job != nil {
							// every acknowledged submission has a job of its own
							if prev, dup := jobOwner[job.Id]; dup && sharedJob == "" {
								sharedJob = fmt.Sprintf("job id %s was handed to submission %s and to submission %s", job.Id, prev, val)
							}
							jobOwner[job.Id] = val
							for k := 0; k < 100; k++ {
								st, e := srv.Srv.GetJob(ctx, job)
								if e != nil || st.State == gripql.JobState_COMPLETE || st.State == gripql.JobState_ERROR {
									break
								}
								sleepSim(500)
							}
							ts := &traversalStream{}
							srv.Srv.ViewJob(job, ts)
							checkRows(ts.Rows)
						}
					case "jobs":
						srv.Srv.ListJobs(&gripql.GraphID{Graph: op.G}, &jobListStream{})
					}
					if isEdit(op.Op) {
						if op.Op == "bulk" && err != nil {
							// a stream is not atomic: its elements are routed one by one
							// (the first may have met a graph that did not exist yet); a
							// stream that was not fully acknowledged counts as two
							// independent vertex writes that may or may not have happened
							edits[c] = append(edits[c],
								c17Edit{op: cOp{Op: "addV", G: op.G, ID: op.ID, Label: op.Label}, value: val, acked: false},
								c17Edit{op: cOp{Op: "addV", G: op.G, ID: bulkSecond(op.ID), Label: op.Label}, value: val, acked: false})
						} else {
							edits[c] = append(edits[c], c17Edit{op: op, value: val, acked: err == nil})
						}
					}
				}
				returned++
				if returned == len(w.Sessions) {
					s.Passive(func() {
						if n := disk.Faults.Fired["write_error"]; n > 0 {
							o.Count("fault:write_error", n)
						}
						disk.Disarm()
						got = observeReal(srv.DB, u, x.WorkDir)
						if sc, e := srv.Srv.GetSchema(ctx, &gripql.GraphID{Graph: "g1"}); e == nil && sc != nil {
							servedSchema = schemaIDs(sc)
						}
						if sg, e := srv.DB.Graph("g1__schema__"); e == nil {
							var ids []string
							for v := range sg.GetVertexList(ctx, false) {
								ids = append(ids, v.ID)
							}
							sort.Strings(ids)
							storedSchema = strings.Join(ids, ",")
						}
						for _, ce := range cache {
							t, e := srv.Srv.GetTimestamp(ctx, &gripql.GraphID{Graph: ce.g})
							if e != nil || t == nil || t.Timestamp != ce.ts {
								continue
							}
							q := gen.StmtsOf(gen.V())
							if ce.q == "E" {
								q = gen.StmtsOf(gen.E())
							}
							ts := &traversalStream{}
							if e := srv.Srv.Traversal(&gripql.GraphQuery{Graph: ce.g, Query: q}, ts); e != nil {
								continue
							}
							rows := append([]string{}, ts.Rows...)
							sort.Strings(rows)
							o.Count("cache_entries_still_current", 1)
							if now := strings.Join(rows, "\n"); now != ce.rows && staleCache == "" {
								staleCache = fmt.Sprintf("graph %s, %s(): timestamp %s read before the listing is still the graph's timestamp, but the listing was\n%s\nand is now\n%s", ce.g, ce.q, ce.ts, ce.rows, now)
							}
						}
					})
				}
			})
		}
		return nil
	}, nil)
	o.Fingerprint = hash64(b) ^ x.Stats.TraceHash
	o.NonTrivial = nedits >= 2 && len(w.Sessions) >= 2
	switch {
	case setupErr != nil:
		o.Inconclusive = "infra:setup: " + setupErr.Error()
	case res.Infra != "":
		o.Inconclusive = "infra:" + res.Infra
	case len(res.Panics) > 0:
		o.Violation = &Violation{Class: "C17/server-death", Signature: "C17/server-death/" + panicSite(res.Panics[0]), Detail: res.Panics[0]}
	case res.Verdict == simrt.Budget:
		o.Inconclusive = "step budget"
	case res.Verdict != simrt.Done:
		o.Violation = &Violation{Class: "C17/stuck", Signature: fmt.Sprintf("C17/%s/%s", res.Verdict, blockedSig(res.LiveSites)), Detail: fmt.Sprintf("concurrent sessions never all returned: %v", res.LiveSites)}
	case len(badReads) > 0:
		sort.Strings(badReads)
		o.Violation = &Violation{Signature: "C17/read-of-a-value-nobody-wrote", Detail: badReads[0]}
	case staleCache != "":
		o.Violation = &Violation{Signature: "C17/unchanged-timestamp-but-changed-listing", Detail: staleCache}
	case sharedJob != "":
		o.Violation = &Violation{Signature: "C17/jobs/two-submissions-share-a-job-id", Detail: sharedJob}
	case badSchemaRead != "":
		o.Violation = &Violation{Signature: "C17/schema/reader-saw-a-schema-nobody-uploaded", Detail: badSchemaRead}
	case got == nil:
		o.Inconclusive = "infra:no final observation"
	case c17SchemaVerdict(schemas, servedSchema, storedSchema, o) != nil:
		o.Violation = c17SchemaVerdict(schemas, servedSchema, storedSchema, nil)
	default:
		got.dropKind("vertex-labels")
		got.dropKind("edge-labels")
		if nedits <= 14 {
			if !someOrderMatches(edits, u, got) {
				var gl []string
				for _, k := range got.keys {
					if got.vals[k] != "absent" && got.vals[k] != "[]" && got.vals[k] != "no" {
						gl = append(gl, k+"="+got.vals[k])
					}
				}
				o.Violation = &Violation{Class: "C17/final-state", Signature: "C17/final-state/not-explained-by-any-order-of-the-acknowledged-edits", Detail: fmt.Sprintf("edits (per client, in order, acked?): %v\nfinal state: %s", editsString(edits), strings.Join(gl, "\n  "))}
			} else {
				o.Count("final_state_explained", 1)
			}
		} else {
			o.Count("final_state_search_skipped(too many edits)", 1)
		}
	}
	return o
}

// c17SchemaVerdict judges the schema of g1 (a graph no session deletes) once
// every call has returned. The schema served by the running server must be the
// upload of an acknowledged AddSchema call that no acknowledged AddSchema of
// the same client follows (a refused upload is never served); with no
// acknowledged upload there is no schema. The stored schema graph must be that
// of one such call, whole - judged only when every upload was acknowledged (a
// refused upload may have been stored in part) - and the same one as is served.
func c17SchemaVerdict(schemas [][]c17Schema, served, stored string, o *Outcome) *Violation {
	cand := map[string]bool{}
	unacked, calls := 0, 0
	var desc []string
	for c, ss := range schemas {
		last := ""
		for _, sc := range ss {
			if sc.g != "g1" {
				continue
			}
			calls++
			desc = append(desc, fmt.Sprintf("client%d:addSchema(%s)=%v", c, sc.val, sc.acked))
			if sc.acked {
				last = sc.val
			} else {
				unacked++
			}
		}
		if last != "" {
			cand[last+".x,"+last+".y"] = true
		}
	}
	if calls == 0 {
		return nil
	}
	if o != nil {
		o.Count("schema_uploads_judged", 1)
		if unacked > 0 {
			o.Count("schema_uploads_refused", unacked)
		}
	}
	detail := fmt.Sprintf("uploads: %s\nserved by GetSchema(g1): [%s]\nstored in g1__schema__: [%s]", strings.Join(desc, " "), served, stored)
	switch {
	case served != "" && !cand[served]:
		return &Violation{Class: "C17/schema", Signature: "C17/schema/served-schema-is-not-the-last-acknowledged-upload-of-any-client", Detail: detail}
	case served == "" && len(cand) > 0:
		return &Violation{Class: "C17/schema", Signature: "C17/schema/acknowledged-upload-not-served", Detail: detail}
	case unacked == 0 && stored != served:
		return &Violation{Class: "C17/schema", Signature: "C17/schema/stored-schema-differs-from-the-served-one", Detail: detail}
	}
	return nil
}

func editsString(edits [][]c17Edit) string {
	var out []string
	for c, es := range edits {
		var l []string
		for _, e := range es {
			l = append(l, fmt.Sprintf("%s(%s,%s)=%s:%v", e.op.Op, e.op.G, e.op.ID, e.value, e.acked))
		}
		out = append(out, fmt.Sprintf("client%d[%s]", c, strings.Join(l, " ")))
	}
	return strings.Join(out, " ")
}

func execC17(w *c17W, x *Exec) *Outcome {
	o := execC17once(w, x)
	if o.Inconclusive == "step budget" && simrt.Policy(w.Run.Policy) != simrt.PolRR {
		// only the fair policy can tell "slow" from "stuck" (DESIGN 2.6)
		w2 := &c17W{}
		jsonClone(w, w2)
		w2.Run.Policy = int(simrt.PolRR)
		w2.Run.StarveSite, w2.Run.StarveIdx = "", 0
		o2 := execC17once(w2, x)
		o2.Count("reran_under_fair_policy", 1)
		return o2
	}
	return o
}
