package model

import (
	"fmt"

	"github.com/bmeg/grip/gripql"
)

// refjump: the iterative definition of mark/jump loops (iterations.md).
// A traveler that reaches jump(dest, cond, emit) re-enters the pipeline right
// after mark(dest) when cond is absent or holds; when emit is set a copy also
// continues down the chain. Travelers are independent, so the definition is a
// work list over (traveler, program counter); the result is the multiset of
// travelers that fall off the end of the program.
//
// Only traveler-local steps may occur (the generators guarantee it).
func EvalLoop(g *G, stmts []*gripql.GraphStatement, maxWork int) (Spec, string) {
	markPC := map[string]int{}
	for i, s := range stmts {
		if m, ok := s.Statement.(*gripql.GraphStatement_Mark); ok {
			markPC[m.Mark] = i
		}
	}
	// static typing pass (types do not depend on the data)
	st := NewState()
	typAt := make([]string, len(stmts)+1)
	for i, s := range stmts {
		switch s.Statement.(type) {
		case *gripql.GraphStatement_Mark, *gripql.GraphStatement_Jump:
		default:
			if _, ok, err := Step(NewG(), s, nil, st); err != "" || !ok {
				return Spec{Err: fmt.Sprintf("step %d (%T) is not traveler-local", i, s.Statement)}, st.Typ
			}
		}
		typAt[i+1] = st.Typ
	}
	type item struct {
		ts []*Trav
		pc int
	}
	var out []*Trav
	work := []item{{nil, 0}}
	n := 0
	for len(work) > 0 {
		it := work[0]
		work = work[1:]
		ts, pc := it.ts, it.pc
		for ; pc < len(stmts); pc++ {
			n++
			if n > maxWork {
				return Spec{Err: "reference loop did not terminate within the work bound"}, st.Typ
			}
			if pc > 0 && len(ts) == 0 {
				break
			}
			s := stmts[pc]
			switch x := s.Statement.(type) {
			case *gripql.GraphStatement_Mark:
				continue
			case *gripql.GraphStatement_Jump:
				var jumpers, cont []*Trav
				for _, t := range ts {
					if x.Jump.Expression == nil || EvalHas(t, x.Jump.Expression) {
						jumpers = append(jumpers, t)
					}
					if x.Jump.Emit {
						cont = append(cont, t)
					}
				}
				if len(jumpers) > 0 {
					dest, ok := markPC[x.Jump.Mark]
					if !ok {
						return Spec{Err: "jump to a missing mark"}, st.Typ
					}
					work = append(work, item{jumpers, dest + 1})
				}
				ts = cont
			default:
				ls := &State{Typ: typAt[pc], MarkTypes: st.MarkTypes}
				nts, ok, err := Step(g, s, ts, ls)
				if err != "" || !ok {
					return Spec{Err: "loop step: " + err}, st.Typ
				}
				ts = nts
				if len(ts) > 20000 {
					return Spec{Err: "reference loop fans out beyond the modelled bound"}, st.Typ
				}
			}
		}
		if pc >= len(stmts) {
			out = append(out, ts...)
		}
	}
	rows := make([]string, 0, len(out))
	for _, t := range out {
		rows = append(rows, RowOf(t, st.Typ))
	}
	return Spec{Exact: true, Rows: rows}, st.Typ
}
