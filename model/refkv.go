package model

import (
	"bytes"
	"sort"
)

// RefKV: one ordered byte-string map with forward/reverse seek (the common
// meaning of kvi.KVInterface).
type RefKV struct {
	m map[string][]byte
}

func NewRefKV() *RefKV { return &RefKV{m: map[string][]byte{}} }

func (r *RefKV) Clone() *RefKV {
	n := NewRefKV()
	for k, v := range r.m {
		n.m[k] = v
	}
	return n
}

func (r *RefKV) Set(k, v []byte)     { r.m[string(k)] = append([]byte{}, v...) }
func (r *RefKV) Delete(k []byte)     { delete(r.m, string(k)) }
func (r *RefKV) Has(k []byte) bool   { _, ok := r.m[string(k)]; return ok }
func (r *RefKV) Get(k []byte) ([]byte, bool) {
	v, ok := r.m[string(k)]
	return v, ok
}
func (r *RefKV) DeletePrefix(p []byte) {
	for k := range r.m {
		if bytes.HasPrefix([]byte(k), p) {
			delete(r.m, k)
		}
	}
}
func (r *RefKV) Keys() [][]byte {
	ks := make([]string, 0, len(r.m))
	for k := range r.m {
		ks = append(ks, k)
	}
	sort.Strings(ks)
	out := make([][]byte, len(ks))
	for i, k := range ks {
		out[i] = []byte(k)
	}
	return out
}

// RefIter iterates a snapshot.
type RefIter struct {
	keys [][]byte
	kv   *RefKV
	pos  int
	rev  bool
}

func (r *RefKV) Iter() *RefIter { return &RefIter{keys: r.Keys(), kv: r.Clone(), pos: -1} }

func (it *RefIter) Seek(k []byte) {
	it.rev = false
	it.pos = sort.Search(len(it.keys), func(i int) bool { return bytes.Compare(it.keys[i], k) >= 0 })
}
func (it *RefIter) SeekReverse(k []byte) {
	it.rev = true
	it.pos = sort.Search(len(it.keys), func(i int) bool { return bytes.Compare(it.keys[i], k) > 0 }) - 1
}
func (it *RefIter) Next() {
	if it.rev {
		it.pos--
	} else {
		it.pos++
	}
}
func (it *RefIter) Valid() bool { return it.pos >= 0 && it.pos < len(it.keys) }
func (it *RefIter) Key() []byte { return it.keys[it.pos] }
func (it *RefIter) Value() []byte {
	v, _ := it.kv.Get(it.keys[it.pos])
	return v
}
