// Package model holds the small executable reference models the simulated runs
// are judged against. They are written from the documentation
// (website/content/docs/queries/*.md, conformance scripts read as
// documentation) and share no code with bmeg/grip's engine.
package model

import (
	"encoding/json"
	"fmt"
	"sort"
	"strings"
)

// Vertex / Edge of the abstract multigraph.
type Vertex struct {
	ID    string                 `json:"id"`
	Label string                 `json:"label"`
	Data  map[string]interface{} `json:"data,omitempty"`
}

type Edge struct {
	ID    string                 `json:"id"`
	Label string                 `json:"label"`
	From  string                 `json:"from"`
	To    string                 `json:"to"`
	Data  map[string]interface{} `json:"data,omitempty"`
}

// GraphData is a graph as a generated input: lists, in insertion order.
type GraphData struct {
	V []*Vertex `json:"v"`
	E []*Edge   `json:"e"`
}

// G is one abstract graph: last write to an id wins, edges may dangle.
type G struct {
	V map[string]*Vertex
	E map[string]*Edge
	// insertion sequence numbers (for deterministic listings in the model)
	vseq, eseq map[string]int
	seq        int
}

func NewG() *G {
	return &G{V: map[string]*Vertex{}, E: map[string]*Edge{}, vseq: map[string]int{}, eseq: map[string]int{}}
}

func FromData(d *GraphData) *G {
	g := NewG()
	for _, v := range d.V {
		g.AddVertex(v)
	}
	for _, e := range d.E {
		g.AddEdge(e)
	}
	return g
}

func (g *G) AddVertex(v *Vertex) {
	c := *v
	c.Data = deepCopyMap(v.Data)
	if _, ok := g.V[v.ID]; !ok {
		g.seq++
		g.vseq[v.ID] = g.seq
	}
	g.V[v.ID] = &c
}

func (g *G) AddEdge(e *Edge) {
	c := *e
	c.Data = deepCopyMap(e.Data)
	if _, ok := g.E[e.ID]; !ok {
		g.seq++
		g.eseq[e.ID] = g.seq
	}
	g.E[e.ID] = &c
}

func (g *G) DelVertex(id string) bool {
	if _, ok := g.V[id]; !ok {
		return false
	}
	delete(g.V, id)
	for eid, e := range g.E {
		if e.From == id || e.To == id {
			delete(g.E, eid)
		}
	}
	return true
}

func (g *G) DelEdge(id string) bool {
	if _, ok := g.E[id]; !ok {
		return false
	}
	delete(g.E, id)
	return true
}

func (g *G) Clone() *G {
	n := NewG()
	for _, id := range g.VertexIDs() {
		n.AddVertex(g.V[id])
	}
	for _, id := range g.EdgeIDs() {
		n.AddEdge(g.E[id])
	}
	return n
}

func (g *G) VertexIDs() []string {
	ids := make([]string, 0, len(g.V))
	for id := range g.V {
		ids = append(ids, id)
	}
	sort.Strings(ids)
	return ids
}

func (g *G) EdgeIDs() []string {
	ids := make([]string, 0, len(g.E))
	for id := range g.E {
		ids = append(ids, id)
	}
	sort.Strings(ids)
	return ids
}

// OutEdges / InEdges: incident edges (sorted by id), optional label filter.
func (g *G) OutEdges(vid string, labels []string) []*Edge {
	var out []*Edge
	for _, id := range g.EdgeIDs() {
		e := g.E[id]
		if e.From == vid && (len(labels) == 0 || containsStr(labels, e.Label)) {
			out = append(out, e)
		}
	}
	return out
}

func (g *G) InEdges(vid string, labels []string) []*Edge {
	var out []*Edge
	for _, id := range g.EdgeIDs() {
		e := g.E[id]
		if e.To == vid && (len(labels) == 0 || containsStr(labels, e.Label)) {
			out = append(out, e)
		}
	}
	return out
}

func containsStr(a []string, s string) bool {
	for _, x := range a {
		if x == s {
			return true
		}
	}
	return false
}

func (g *G) VertexLabels() []string {
	m := map[string]bool{}
	for _, v := range g.V {
		m[v.Label] = true
	}
	return sortedKeys(m)
}

func (g *G) EdgeLabels() []string {
	m := map[string]bool{}
	for _, e := range g.E {
		m[e.Label] = true
	}
	return sortedKeys(m)
}

func sortedKeys(m map[string]bool) []string {
	out := make([]string, 0, len(m))
	for k := range m {
		out = append(out, k)
	}
	sort.Strings(out)
	return out
}

// Store is the abstract multi-graph database of C03.
type Store struct {
	Graphs map[string]*G
}

func NewStore() *Store { return &Store{Graphs: map[string]*G{}} }

func (s *Store) Clone() *Store {
	n := NewStore()
	for k, g := range s.Graphs {
		n.Graphs[k] = g.Clone()
	}
	return n
}

func (s *Store) GraphNames() []string {
	out := make([]string, 0, len(s.Graphs))
	for k := range s.Graphs {
		out = append(out, k)
	}
	sort.Strings(out)
	return out
}

// ---------------------------------------------------------------------------
// JSON-ish value helpers

func deepCopy(v interface{}) interface{} {
	switch x := v.(type) {
	case map[string]interface{}:
		return deepCopyMap(x)
	case []interface{}:
		o := make([]interface{}, len(x))
		for i := range x {
			o[i] = deepCopy(x[i])
		}
		return o
	}
	return v
}

func deepCopyMap(m map[string]interface{}) map[string]interface{} {
	if m == nil {
		return nil
	}
	o := make(map[string]interface{}, len(m))
	for k, v := range m {
		o[k] = deepCopy(v)
	}
	return o
}

// DeepCopyMap is exported for generators.
func DeepCopyMap(m map[string]interface{}) map[string]interface{} { return deepCopyMap(m) }

// Canon renders any JSON-like value canonically (sorted keys).
func Canon(v interface{}) string {
	b, err := json.Marshal(norm(v))
	if err != nil {
		return fmt.Sprintf("<unmarshalable %v>", err)
	}
	return string(b)
}

// norm maps nil maps to empty maps etc. so that "no data" and "empty data"
// compare equal (the wire format does not distinguish them).
func norm(v interface{}) interface{} {
	switch x := v.(type) {
	case map[string]interface{}:
		o := make(map[string]interface{}, len(x))
		for k, e := range x {
			o[k] = norm(e)
		}
		return o
	case []interface{}:
		o := make([]interface{}, len(x))
		for i := range x {
			o[i] = norm(x[i])
		}
		return o
	case int:
		return float64(x)
	case int32:
		return float64(x)
	case int64:
		return float64(x)
	case uint32:
		return float64(x)
	case float32:
		return float64(x)
	}
	return v
}

// MultisetDiff compares two lists of canonical rows as multisets; returns ""
// when equal, otherwise a short description.
func MultisetDiff(want, got []string) string {
	wm, gm := map[string]int{}, map[string]int{}
	for _, s := range want {
		wm[s]++
	}
	for _, s := range got {
		gm[s]++
	}
	var missing, extra []string
	for k, n := range wm {
		if gm[k] < n {
			missing = append(missing, fmt.Sprintf("%dx %s", n-gm[k], k))
		}
	}
	for k, n := range gm {
		if wm[k] < n {
			extra = append(extra, fmt.Sprintf("%dx %s", n-wm[k], k))
		}
	}
	if len(missing) == 0 && len(extra) == 0 {
		return ""
	}
	sort.Strings(missing)
	sort.Strings(extra)
	if len(missing) > 4 {
		missing = append(missing[:4], fmt.Sprintf("... (%d more)", len(missing)-4))
	}
	if len(extra) > 4 {
		extra = append(extra[:4], fmt.Sprintf("... (%d more)", len(extra)-4))
	}
	return fmt.Sprintf("expected %d rows, got %d; missing: [%s]; unexpected: [%s]", len(want), len(got), strings.Join(missing, "; "), strings.Join(extra, "; "))
}

// SubMultiset reports whether every row of sub occurs in sup at least as often.
func SubMultiset(sub, sup []string) bool {
	m := map[string]int{}
	for _, s := range sup {
		m[s]++
	}
	for _, s := range sub {
		m[s]--
		if m[s] < 0 {
			return false
		}
	}
	return true
}
