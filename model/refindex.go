package model

import (
	"math"
	"sort"
	"strings"
)

// refindex: the secondary index as a brute-force scan over the live documents.
type RefIndex struct {
	Docs   map[string]map[string]interface{}
	Fields map[string]bool
}

func NewRefIndex() *RefIndex {
	return &RefIndex{Docs: map[string]map[string]interface{}{}, Fields: map[string]bool{}}
}

func dig(d map[string]interface{}, path string) (interface{}, bool) {
	parts := strings.Split(path, ".")
	var cur interface{} = d
	for _, p := range parts {
		m, ok := cur.(map[string]interface{})
		if !ok {
			return nil, false
		}
		v, ok := m[p]
		if !ok {
			return nil, false
		}
		cur = v
	}
	return cur, true
}

// terms of a field: docID -> term (string or float64), for live docs only.
func (r *RefIndex) terms(field string) map[string]interface{} {
	out := map[string]interface{}{}
	if !r.Fields[field] {
		return out
	}
	for id, d := range r.Docs {
		if v, ok := dig(d, field); ok {
			switch v.(type) {
			case string, float64:
				out[id] = v
			}
		}
	}
	return out
}

func (r *RefIndex) TermMatch(field string, term interface{}) []string {
	var out []string
	for id, v := range r.terms(field) {
		if v == term {
			out = append(out, id)
		}
	}
	sort.Strings(out)
	return out
}

type TermCount struct {
	IsNum bool
	S     string
	N     float64
	Count int
}

func (r *RefIndex) TermCounts(field string, stringsOnly bool) []TermCount {
	sc, nc := map[string]int{}, map[float64]int{}
	for _, v := range r.terms(field) {
		switch x := v.(type) {
		case string:
			sc[x]++
		case float64:
			if !stringsOnly {
				nc[x]++
			}
		}
	}
	var out []TermCount
	for s, c := range sc {
		out = append(out, TermCount{S: s, Count: c})
	}
	for n, c := range nc {
		out = append(out, TermCount{IsNum: true, N: n, Count: c})
	}
	sort.Slice(out, func(i, j int) bool {
		if out[i].IsNum != out[j].IsNum {
			return !out[i].IsNum
		}
		if out[i].IsNum {
			return out[i].N < out[j].N
		}
		return out[i].S < out[j].S
	})
	return out
}

func (r *RefIndex) Numbers(field string) []float64 {
	var out []float64
	for _, v := range r.terms(field) {
		if f, ok := v.(float64); ok {
			out = append(out, f)
		}
	}
	sort.Float64s(out)
	return out
}

func (r *RefIndex) MinMax(field string) (min, max float64, ok bool) {
	ns := r.Numbers(field)
	if len(ns) == 0 {
		return 0, 0, false
	}
	return ns[0], ns[len(ns)-1], true
}

// RangeCounts: term -> count for numeric terms strictly inside (lo, hi); the
// boundary terms are returned separately (their inclusion is not documented).
func (r *RefIndex) RangeCounts(field string, lo, hi float64) (inside map[float64]int, boundary map[float64]bool) {
	inside, boundary = map[float64]int{}, map[float64]bool{}
	for _, n := range r.Numbers(field) {
		switch {
		case n > lo && n < hi:
			inside[n]++
		case n == lo || n == hi:
			boundary[n] = true
		}
	}
	return
}

var _ = math.Inf
