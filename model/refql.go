package model

import (
	"encoding/json"
	"fmt"
	"reflect"
	"sort"
	"strings"

	"github.com/bmeg/grip/gripql"
)

// refql: a sequential, list-based interpreter of the documented GripQL steps
// over the abstract graph. A traveler is (current, marks, path); a step maps a
// list of travelers to a list of travelers. Where the documentation leaves the
// outcome open (which rows survive limit/skip/range, which representative
// distinct() keeps) the interpreter returns a *weak* specification instead of
// an exact multiset.

type El struct {
	IsEdge bool
	ID     string
	Label  string
	From   string
	To     string
	Data   map[string]interface{}
}

type PathEl struct{ Vertex, Edge string }

type Trav struct {
	Cur    *El // nil = null element (after a *Null step)
	Marks  map[string]*El
	Path   []PathEl
	Kind   string // "" element | count | sel | render | path | agg
	Count  int
	Sel    map[string]*El
	Render interface{}
}

// Spec is what the reference semantics say about the result of a traversal.
type Spec struct {
	Exact     bool
	Rows      []string // Exact: the result multiset (canonical rows)
	N         int      // !Exact: required number of rows
	Superset  []string // !Exact: every returned row must come from this multiset
	DistinctOn []string // !Exact: returned rows must be pairwise distinct on these fields ...
	KeySet    []string // ... and the set of their key tuples must equal this set
	Err       string   // interpreter could not model the program (generator bug)
}

func vEl(v *Vertex) *El {
	return &El{ID: v.ID, Label: v.Label, Data: deepCopyMap(v.Data)}
}
func eEl(e *Edge) *El {
	return &El{IsEdge: true, ID: e.ID, Label: e.Label, From: e.From, To: e.To, Data: deepCopyMap(e.Data)}
}

func (t *Trav) move(el *El) *Trav {
	n := &Trav{Cur: el, Marks: t.Marks, Path: make([]PathEl, len(t.Path), len(t.Path)+1)}
	copy(n.Path, t.Path)
	switch {
	case el == nil:
		n.Path = append(n.Path, PathEl{})
	case el.IsEdge:
		n.Path = append(n.Path, PathEl{Edge: el.ID})
	default:
		n.Path = append(n.Path, PathEl{Vertex: el.ID})
	}
	return n
}

func (t *Trav) withMark(name string, el *El) *Trav {
	m := make(map[string]*El, len(t.Marks)+1)
	for k, v := range t.Marks {
		m[k] = v
	}
	m[name] = el
	return &Trav{Cur: t.Cur, Marks: m, Path: t.Path}
}

func strList(l interface{ AsSlice() []interface{} }) []string {
	var out []string
	if l == nil || reflect.ValueOf(l).IsNil() {
		return nil
	}
	for _, x := range l.AsSlice() {
		if s, ok := x.(string); ok {
			out = append(out, s)
		}
	}
	return out
}

// Lookup resolves a field reference on a traveler per jsonpath.md:
// name / a.b (properties), _gid _label _from _to _data, $mark.field.
func Lookup(t *Trav, path string) (interface{}, bool) {
	parts := strings.Split(path, ".")
	el := t.Cur
	if strings.HasPrefix(parts[0], "$") {
		ns := strings.TrimPrefix(parts[0], "$")
		parts = parts[1:]
		if ns != "" {
			el = t.Marks[ns]
		}
	}
	return lookupEl(el, parts)
}

func lookupEl(el *El, parts []string) (interface{}, bool) {
	if el == nil || len(parts) == 0 {
		return nil, false
	}
	var cur interface{}
	switch parts[0] {
	case "_gid":
		cur = el.ID
	case "_label":
		cur = el.Label
	case "_from":
		cur = el.From
	case "_to":
		cur = el.To
	case "_data":
		if el.Data == nil {
			cur = map[string]interface{}{}
		} else {
			cur = el.Data
		}
	default:
		v, ok := el.Data[parts[0]]
		if !ok {
			return nil, false
		}
		cur = v
	}
	for _, p := range parts[1:] {
		m, ok := cur.(map[string]interface{})
		if !ok {
			return nil, false
		}
		v, ok := m[p]
		if !ok {
			return nil, false
		}
		cur = v
	}
	return cur, true
}

func num(v interface{}) (float64, bool) {
	switch x := v.(type) {
	case float64:
		return x, true
	case int:
		return float64(x), true
	}
	return 0, false
}

// EvalHas evaluates a has-expression with the documented meaning.
func EvalHas(t *Trav, h *gripql.HasExpression) bool {
	switch e := h.Expression.(type) {
	case *gripql.HasExpression_And:
		for _, x := range e.And.Expressions {
			if !EvalHas(t, x) {
				return false
			}
		}
		return true
	case *gripql.HasExpression_Or:
		for _, x := range e.Or.Expressions {
			if EvalHas(t, x) {
				return true
			}
		}
		return false
	case *gripql.HasExpression_Not:
		return !EvalHas(t, e.Not)
	case *gripql.HasExpression_Condition:
		c := e.Condition
		val, _ := Lookup(t, c.Key)
		cv := c.Value.AsInterface()
		switch c.Condition {
		case gripql.Condition_EQ:
			return reflect.DeepEqual(norm(val), norm(cv))
		case gripql.Condition_NEQ:
			return !reflect.DeepEqual(norm(val), norm(cv))
		case gripql.Condition_GT, gripql.Condition_GTE, gripql.Condition_LT, gripql.Condition_LTE:
			a, ok1 := num(val)
			b, ok2 := num(cv)
			if !ok1 || !ok2 {
				return false
			}
			switch c.Condition {
			case gripql.Condition_GT:
				return a > b
			case gripql.Condition_GTE:
				return a >= b
			case gripql.Condition_LT:
				return a < b
			default:
				return a <= b
			}
		case gripql.Condition_INSIDE, gripql.Condition_OUTSIDE, gripql.Condition_BETWEEN:
			l, ok := cv.([]interface{})
			if !ok || len(l) != 2 {
				return false
			}
			lo, ok1 := num(l[0])
			hi, ok2 := num(l[1])
			a, ok3 := num(val)
			if !ok1 || !ok2 || !ok3 {
				return false
			}
			switch c.Condition {
			case gripql.Condition_INSIDE:
				return a > lo && a < hi
			case gripql.Condition_OUTSIDE:
				return a < lo || a > hi
			default:
				return a >= lo && a < hi
			}
		case gripql.Condition_WITHIN, gripql.Condition_WITHOUT:
			l, _ := cv.([]interface{})
			found := false
			for _, x := range l {
				if reflect.DeepEqual(norm(val), norm(x)) {
					found = true
				}
			}
			if c.Condition == gripql.Condition_WITHIN {
				return found
			}
			return !found
		case gripql.Condition_CONTAINS:
			l, _ := val.([]interface{})
			for _, x := range l {
				if reflect.DeepEqual(norm(x), norm(cv)) {
					return true
				}
			}
			return false
		}
	}
	return false
}

func renderT(t *Trav, tmpl interface{}) interface{} {
	switch x := tmpl.(type) {
	case string:
		v, _ := Lookup(t, x)
		return v
	case map[string]interface{}:
		o := map[string]interface{}{}
		for k, v := range x {
			o[k] = renderT(t, v)
		}
		return o
	case []interface{}:
		o := make([]interface{}, len(x))
		for i := range x {
			o[i] = renderT(t, x[i])
		}
		return o
	}
	return nil
}

func elJSON(e *El) interface{} {
	if e == nil {
		return nil
	}
	d := e.Data
	if d == nil {
		d = map[string]interface{}{}
	}
	if e.IsEdge {
		return map[string]interface{}{"gid": e.ID, "label": e.Label, "from": e.From, "to": e.To, "data": d}
	}
	return map[string]interface{}{"gid": e.ID, "label": e.Label, "data": d}
}

// RowOf renders a final traveler as a canonical result row.
func RowOf(t *Trav, typ string) string {
	switch typ {
	case "vertex":
		return Canon(map[string]interface{}{"vertex": elJSON(t.Cur)})
	case "edge":
		return Canon(map[string]interface{}{"edge": elJSON(t.Cur)})
	case "count":
		return Canon(map[string]interface{}{"count": float64(t.Count)})
	case "render":
		return Canon(map[string]interface{}{"render": t.Render})
	case "path":
		var p []interface{}
		for _, pe := range t.Path {
			switch {
			case pe.Vertex != "":
				p = append(p, map[string]interface{}{"vertex": pe.Vertex})
			case pe.Edge != "":
				p = append(p, map[string]interface{}{"edge": pe.Edge})
			default:
				p = append(p, map[string]interface{}{})
			}
		}
		if p == nil {
			p = []interface{}{}
		}
		return Canon(map[string]interface{}{"path": p})
	case "selection":
		m := map[string]interface{}{}
		for k, e := range t.Sel {
			if e != nil && e.IsEdge {
				m[k] = map[string]interface{}{"edge": elJSON(e)}
			} else {
				m[k] = map[string]interface{}{"vertex": elJSON(e)}
			}
		}
		return Canon(map[string]interface{}{"selections": m})
	}
	return "<?" + typ + ">"
}

func trunc(n int, s *gripql.GraphStatement) (int, bool) {
	switch x := s.Statement.(type) {
	case *gripql.GraphStatement_Limit:
		if int(x.Limit) < n {
			return int(x.Limit), true
		}
		return n, true
	case *gripql.GraphStatement_Skip:
		if n-int(x.Skip) < 0 {
			return 0, true
		}
		return n - int(x.Skip), true
	case *gripql.GraphStatement_Range:
		a, b := int(x.Range.Start), int(x.Range.Stop)
		if a < 0 {
			a = 0
		}
		if b == -1 || b > n {
			b = n
		}
		if b < a {
			return 0, true
		}
		return b - a, true
	}
	return 0, false
}

// State carries the static typing information along a program.
type State struct {
	Typ       string
	MarkTypes map[string]string
}

func NewState() *State { return &State{MarkTypes: map[string]string{}} }

// MaxRefTravelers bounds the number of travelers the reference keeps between
// two steps.
const MaxRefTravelers = 60000

// Eval interprets stmts over g. The program must be well typed (the
// generators guarantee it); typ is filled with the documented result type.
func Eval(g *G, stmts []*gripql.GraphStatement) (spec Spec, typ string) {
	var ts []*Trav
	st := NewState()
	for i := 0; i < len(stmts); i++ {
		gs := stmts[i]
		if nts, ok, err := Step(g, gs, ts, st); err != "" {
			return Spec{Err: err}, st.Typ
		} else if ok {
			ts = nts
			if len(ts) > MaxRefTravelers {
				// repeated fan-out on parallel edges and self loops grows
				// exponentially with the program length; such a case is skipped
				// (inconclusive) before the implementation is run on it
				return Spec{Err: "reference fans out beyond the modelled bound"}, st.Typ
			}
			continue
		}
		typ = st.Typ
		switch x := gs.Statement.(type) {
		case *gripql.GraphStatement_Count:
			ts = []*Trav{{Kind: "count", Count: len(ts)}}
			st.Typ = "count"
		case *gripql.GraphStatement_Distinct:
			fields := strList(x.Distinct)
			if len(fields) == 0 {
				fields = []string{"_gid"}
			}
			onGid := len(fields) == 1 && fields[0] == "_gid"
			if onGid && !usesHistory(stmts[i+1:]) {
				// every representative of a gid class is the same element; later
				// steps look at the current element only: exact
				seen := map[string]bool{}
				var nt []*Trav
				for _, t := range ts {
					if t.Cur == nil {
						continue
					}
					if !seen[t.Cur.ID] {
						seen[t.Cur.ID] = true
						nt = append(nt, t)
					}
				}
				ts = nt
				continue
			}
			// weak: tail may only be truncations and count
			var sup []string
			keys := map[string]bool{}
			for _, t := range ts {
				k, ok := keyOf(t, fields)
				if !ok {
					continue
				}
				keys[k] = true
				sup = append(sup, RowOf(t, typ))
			}
			return weakTail(len(keys), sup, fields, sortedKeys(keys), stmts[i+1:], typ)
		case *gripql.GraphStatement_Limit, *gripql.GraphStatement_Skip, *gripql.GraphStatement_Range:
			var sup []string
			for _, t := range ts {
				sup = append(sup, RowOf(t, typ))
			}
			return weakTail(len(ts), sup, nil, nil, stmts[i:], typ)
		default:
			return Spec{Err: fmt.Sprintf("step %T not modelled by refql", x)}, typ
		}
	}
	rows := make([]string, 0, len(ts))
	for _, t := range ts {
		rows = append(rows, RowOf(t, st.Typ))
	}
	return Spec{Exact: true, Rows: rows}, st.Typ
}

// Step applies one traveler-local step (start, move, filter, as, select,
// fields, render, path, unwind, set, increment). ok=false: the step is not
// traveler-local (count, distinct, limit/skip/range, aggregate, mark, jump).
func Step(g *G, gs *gripql.GraphStatement, ts []*Trav, s *State) (out []*Trav, ok bool, errs string) {
	typ := s.Typ
	markTypes := s.MarkTypes
	defer func() { s.Typ = typ }()
	switch st := gs.Statement.(type) {
	case *gripql.GraphStatement_V:
		ids := strList(st.V)
		base := &Trav{Marks: map[string]*El{}}
		if len(ids) == 0 {
			for _, id := range g.VertexIDs() {
				ts = append(ts, base.move(vEl(g.V[id])))
			}
		} else {
			for _, id := range ids {
				if v, ok := g.V[id]; ok {
					ts = append(ts, base.move(vEl(v)))
				}
			}
		}
		typ = "vertex"
	case *gripql.GraphStatement_E:
		ids := strList(st.E)
		base := &Trav{Marks: map[string]*El{}}
		if len(ids) == 0 {
			for _, id := range g.EdgeIDs() {
				ts = append(ts, base.move(eEl(g.E[id])))
			}
		} else {
			for _, id := range ids {
				if e, ok := g.E[id]; ok {
					ts = append(ts, base.move(eEl(e)))
				}
			}
		}
		typ = "edge"
	case *gripql.GraphStatement_Out, *gripql.GraphStatement_In, *gripql.GraphStatement_Both,
		*gripql.GraphStatement_OutNull, *gripql.GraphStatement_InNull:
		var labels []string
		doIn, doOut, null := false, false, false
		switch x := st.(type) {
		case *gripql.GraphStatement_Out:
			labels, doOut = strList(x.Out), true
		case *gripql.GraphStatement_In:
			labels, doIn = strList(x.In), true
		case *gripql.GraphStatement_Both:
			labels, doIn, doOut = strList(x.Both), true, true
		case *gripql.GraphStatement_OutNull:
			labels, doOut, null = strList(x.OutNull), true, true
		case *gripql.GraphStatement_InNull:
			labels, doIn, null = strList(x.InNull), true, true
		}
		var nt []*Trav
		for _, t := range ts {
			found, dangling := 0, 0
			if t.Cur == nil {
				continue
			}
			if typ == "vertex" {
				if doIn {
					for _, e := range g.InEdges(t.Cur.ID, labels) {
						if v, ok := g.V[e.From]; ok {
							nt = append(nt, t.move(vEl(v)))
							found++
						} else {
							dangling++
						}
					}
				}
				if doOut {
					for _, e := range g.OutEdges(t.Cur.ID, labels) {
						if v, ok := g.V[e.To]; ok {
							nt = append(nt, t.move(vEl(v)))
							found++
						} else {
							dangling++
						}
					}
				}
				if null && found == 0 && dangling > 0 {
					// the documentation (and ot_null.py) says "no match -> one null
					// traveler"; whether an edge to a vertex that is not there is a
					// match is said nowhere, so the reference says nothing
					return nil, false, "outNull/inNull over an edge whose far vertex does not exist (not specified)"
				}
			} else { // edge -> endpoint vertices
				if doIn {
					if v, ok := g.V[t.Cur.From]; ok {
						nt = append(nt, t.move(vEl(v)))
						found++
					}
				}
				if doOut {
					if v, ok := g.V[t.Cur.To]; ok {
						nt = append(nt, t.move(vEl(v)))
						found++
					}
				}
			}
			if null && found == 0 {
				nt = append(nt, t.move(nil))
			}
		}
		ts, typ = nt, "vertex"
	case *gripql.GraphStatement_OutE, *gripql.GraphStatement_InE, *gripql.GraphStatement_BothE,
		*gripql.GraphStatement_OutENull, *gripql.GraphStatement_InENull:
		var labels []string
		doIn, doOut, null := false, false, false
		switch x := st.(type) {
		case *gripql.GraphStatement_OutE:
			labels, doOut = strList(x.OutE), true
		case *gripql.GraphStatement_InE:
			labels, doIn = strList(x.InE), true
		case *gripql.GraphStatement_BothE:
			labels, doIn, doOut = strList(x.BothE), true, true
		case *gripql.GraphStatement_OutENull:
			labels, doOut, null = strList(x.OutENull), true, true
		case *gripql.GraphStatement_InENull:
			labels, doIn, null = strList(x.InENull), true, true
		}
		var nt []*Trav
		for _, t := range ts {
			if t.Cur == nil {
				continue
			}
			found := 0
			if doIn {
				for _, e := range g.InEdges(t.Cur.ID, labels) {
					nt = append(nt, t.move(eEl(e)))
					found++
				}
			}
			if doOut {
				for _, e := range g.OutEdges(t.Cur.ID, labels) {
					nt = append(nt, t.move(eEl(e)))
					found++
				}
			}
			if null && found == 0 {
				nt = append(nt, t.move(nil))
			}
		}
		ts, typ = nt, "edge"
	case *gripql.GraphStatement_Has:
		var nt []*Trav
		for _, t := range ts {
			if EvalHas(t, st.Has) {
				nt = append(nt, t)
			}
		}
		ts = nt
	case *gripql.GraphStatement_HasLabel:
		ls := strList(st.HasLabel)
		var nt []*Trav
		for _, t := range ts {
			if t.Cur != nil && containsStr(ls, t.Cur.Label) {
				nt = append(nt, t)
			}
		}
		ts = nt
	case *gripql.GraphStatement_HasId:
		ls := strList(st.HasId)
		var nt []*Trav
		for _, t := range ts {
			if t.Cur != nil && containsStr(ls, t.Cur.ID) {
				nt = append(nt, t)
			}
		}
		ts = nt
	case *gripql.GraphStatement_HasKey:
		ks := strList(st.HasKey)
		var nt []*Trav
		for _, t := range ts {
			ok := true
			for _, k := range ks {
				if _, ex := Lookup(t, k); !ex {
					ok = false
				}
			}
			if ok {
				nt = append(nt, t)
			}
		}
		ts = nt
	case *gripql.GraphStatement_As:
		var nt []*Trav
		for _, t := range ts {
			nt = append(nt, t.withMark(st.As, t.Cur))
		}
		ts = nt
		markTypes[st.As] = typ
	case *gripql.GraphStatement_Select:
		ms := st.Select.Marks
		var nt []*Trav
		if len(ms) == 1 {
			for _, t := range ts {
				n := t.move(t.Marks[ms[0]])
				nt = append(nt, n)
			}
			typ = markTypes[ms[0]]
		} else {
			for _, t := range ts {
				sel := map[string]*El{}
				for _, m := range ms {
					sel[m] = t.Marks[m]
				}
				nt = append(nt, &Trav{Kind: "sel", Sel: sel})
			}
			typ = "selection"
		}
		ts = nt
	case *gripql.GraphStatement_Fields:
		keys := strList(st.Fields)
		var inc, exc []string
		for _, k := range keys {
			if strings.HasPrefix(k, "-") {
				exc = append(exc, strings.TrimPrefix(k, "-"))
			} else {
				inc = append(inc, k)
			}
		}
		var nt []*Trav
		for _, t := range ts {
			c := *t.Cur
			nd := map[string]interface{}{}
			switch {
			case len(inc) > 0:
				for _, k := range inc {
					if v, ok := t.Cur.Data[k]; ok {
						nd[k] = deepCopy(v)
					}
				}
			case len(exc) > 0:
				for k, v := range t.Cur.Data {
					if !containsStr(exc, k) {
						nd[k] = deepCopy(v)
					}
				}
			}
			c.Data = nd
			n := &Trav{Cur: &c, Marks: t.Marks, Path: nil}
			nt = append(nt, n)
		}
		ts = nt
	case *gripql.GraphStatement_Render:
		tm := st.Render.AsInterface()
		var nt []*Trav
		for _, t := range ts {
			nt = append(nt, &Trav{Kind: "render", Render: renderT(t, tm)})
		}
		ts, typ = nt, "render"
	case *gripql.GraphStatement_Path:
		typ = "path"
	case *gripql.GraphStatement_Unwind:
		var nt []*Trav
		for _, t := range ts {
			v, _ := Lookup(t, st.Unwind)
			l, ok := v.([]interface{})
			if !ok || len(l) == 0 {
				return nil, false, "unwind on a non-list or empty list (outside the modelled subset)"
			}
			for _, item := range l {
				c := *t.Cur
				c.Data = deepCopyMap(t.Cur.Data)
				// the list is replaced by its element where it stands, also
				// below the top level ("a.b"): every row gets its own copy of
				// the enclosing maps
				parts := strings.Split(strings.TrimPrefix(st.Unwind, "_data."), ".")
				m := c.Data
				for _, k := range parts[:len(parts)-1] {
					sub, ok := m[k].(map[string]interface{})
					if !ok {
						return nil, false, "unwind through a non-map (outside the modelled subset)"
					}
					m = sub
				}
				m[parts[len(parts)-1]] = deepCopy(item)
				nt = append(nt, t.move(&c))
			}
		}
		ts = nt
	case *gripql.GraphStatement_Set:
		var nt []*Trav
		for _, t := range ts {
			nt = append(nt, setVal(t, st.Set.Key, st.Set.Value.AsInterface()))
		}
		ts = nt
	case *gripql.GraphStatement_Increment:
		var nt []*Trav
		for _, t := range ts {
			v, _ := Lookup(t, st.Increment.Key)
			f, _ := num(v)
			nt = append(nt, setVal(t, st.Increment.Key, float64(int(f)+int(st.Increment.Value))))
		}
		ts = nt
	default:
		return nil, false, ""
	}
	return ts, true, ""
}

// setVal returns a copy of t in which the referenced field of the current
// element (or of a mark) is set; other travelers sharing the element are not
// affected (counters are per traveler).
func setVal(t *Trav, path string, val interface{}) *Trav {
	parts := strings.Split(path, ".")
	ns := ""
	if strings.HasPrefix(parts[0], "$") {
		ns = strings.TrimPrefix(parts[0], "$")
		parts = parts[1:]
	}
	if len(parts) != 1 {
		return t // only top-level properties are generated
	}
	n := &Trav{Cur: t.Cur, Marks: t.Marks, Path: t.Path}
	upd := func(e *El) *El {
		if e == nil {
			return nil
		}
		c := *e
		c.Data = deepCopyMap(e.Data)
		if c.Data == nil {
			c.Data = map[string]interface{}{}
		}
		c.Data[parts[0]] = val
		return &c
	}
	if ns == "" {
		n.Cur = upd(t.Cur)
		return n
	}
	m := make(map[string]*El, len(t.Marks))
	for k, v := range t.Marks {
		m[k] = v
	}
	m[ns] = upd(t.Marks[ns])
	n.Marks = m
	return n
}

func keyOf(t *Trav, fields []string) (string, bool) {
	parts := make([]string, len(fields))
	for i, f := range fields {
		v, ok := Lookup(t, f)
		if !ok {
			return "", false
		}
		parts[i] = Canon(v)
	}
	return strings.Join(parts, "\x00"), true
}

// KeyOfRow evaluates distinct-key fields on a returned element row
// ({"vertex":{...}} / {"edge":{...}}); marks are not available in rows, so
// weak distinct checks are generated on current-element fields only.
func KeyOfRow(row string, fields []string) (string, bool) {
	var m map[string]map[string]interface{}
	if err := json.Unmarshal([]byte(row), &m); err != nil {
		return "", false
	}
	var el *El
	if v, ok := m["vertex"]; ok && v != nil {
		el = &El{}
		el.ID, _ = v["gid"].(string)
		el.Label, _ = v["label"].(string)
		el.Data, _ = v["data"].(map[string]interface{})
	} else if e, ok := m["edge"]; ok && e != nil {
		el = &El{IsEdge: true}
		el.ID, _ = e["gid"].(string)
		el.Label, _ = e["label"].(string)
		el.From, _ = e["from"].(string)
		el.To, _ = e["to"].(string)
		el.Data, _ = e["data"].(map[string]interface{})
	} else {
		return "", false
	}
	return keyOf(&Trav{Cur: el}, fields)
}

func weakTail(n int, sup []string, distinctOn, keySet []string, tail []*gripql.GraphStatement, typ string) (Spec, string) {
	for j, s := range tail {
		if m, ok := trunc(n, s); ok {
			if m != n {
				keySet = nil // a truncated distinct result covers only part of the key set
			}
			n = m
			continue
		}
		if _, ok := s.Statement.(*gripql.GraphStatement_Count); ok && j == len(tail)-1 {
			return Spec{Exact: true, Rows: []string{Canon(map[string]interface{}{"count": float64(n)})}}, "count"
		}
		return Spec{Err: fmt.Sprintf("step %T after limit/skip/range/distinct(fields) is outside the modelled subset", s.Statement)}, typ
	}
	return Spec{N: n, Superset: sup, DistinctOn: distinctOn, KeySet: keySet}, typ
}

// usesHistory reports whether later steps can observe marks or the path.
func usesHistory(rest []*gripql.GraphStatement) bool {
	for _, s := range rest {
		switch x := s.Statement.(type) {
		case *gripql.GraphStatement_Select, *gripql.GraphStatement_Path:
			return true
		case *gripql.GraphStatement_Render:
			if strings.Contains(Canon(x.Render.AsInterface()), "$") {
				return true
			}
		case *gripql.GraphStatement_Has:
			if strings.Contains(x.Has.String(), "$") {
				return true
			}
		case *gripql.GraphStatement_Distinct:
			for _, f := range strList(x.Distinct) {
				if strings.HasPrefix(f, "$") {
					return true
				}
			}
		}
	}
	return false
}

// Check compares the rows an implementation returned with the specification.
func (s Spec) Check(got []string) string {
	if s.Err != "" {
		return ""
	}
	if s.Exact {
		return MultisetDiff(s.Rows, got)
	}
	if len(got) != s.N {
		return fmt.Sprintf("expected %d rows by the bound arithmetic on the untruncated count, got %d", s.N, len(got))
	}
	if !SubMultiset(got, s.Superset) {
		return "returned rows are not a sub-multiset of the untruncated reference result: " + MultisetDiff(s.Superset, got)
	}
	if len(s.DistinctOn) > 0 {
		seen := map[string]bool{}
		for _, r := range got {
			k, ok := KeyOfRow(r, s.DistinctOn)
			if !ok {
				return "distinct() returned a row lacking one of the fields: " + r
			}
			if seen[k] {
				return "distinct() returned two rows with the same key: " + r
			}
			seen[k] = true
		}
		if s.KeySet != nil {
			ks := sortedKeys(seen)
			sort.Strings(s.KeySet)
			if strings.Join(ks, "\x01") != strings.Join(s.KeySet, "\x01") {
				return fmt.Sprintf("distinct() key set differs: expected %d keys, got %d", len(s.KeySet), len(ks))
			}
		}
	}
	return ""
}
