// Package simkv is the simulated disk: an ordered in-memory key-value store
// behind bmeg/grip's own kvi.KVInterface seam, with the semantics the four
// real drivers have in common (and that property C04 states as its
// assumption): every top-level Set / Delete / DeletePrefix / committed Update /
// committed BulkWrite is one atomic, immediately durable write; View iterates
// over a snapshot; Update is a serialisable read-write transaction that
// commits nothing when its callback returns an error.
//
// Every API entry is a scheduler yield point and a fault point (crash before
// the k-th top-level write, write error on the k-th top-level write).
package simkv

import (
	"bytes"
	"errors"
	"fmt"
	"sort"
	"sync"

	"github.com/bmeg/grip/kvi"
	"verifsim/simrt"
)

type entry struct {
	k []byte
	v []byte
}

// Disk is the durable state; it survives crashes and reopen.
type Disk struct {
	mu      sync.Mutex
	data    []entry // sorted, immutable (copy on write)
	Writes  int     // top-level writes applied (all incarnations)
	frozen  bool
	gen     int
	Faults  Faults
	WLog    []string // description of each top-level write of the armed window
	LogOn   bool
	// CommitOnError: BulkWrite commits what was set even if the callback fails
	// (Pebble/LevelDB behaviour); default false (Badger/Bolt behaviour).
	CommitOnError bool
	updLock sync.Mutex // serialises Update transactions
	// BulkSetErrorAt >= 0: the n-th (0-based) Set issued inside bulk-write
	// callbacks from now on fails once with an I/O error (the write batch of a
	// real engine can refuse an entry: value too large, disk full while
	// spilling); nothing of that Set is recorded
	BulkSetErrorAt int
	bulkSets       int
}

// Faults is the fault plan of the armed window. Counters restart at Arm().
type Faults struct {
	CrashBefore int  // crash before the k-th (0-based) top-level write; -1 = off
	ErrorAt     int  // the k-th top-level write fails with an I/O error; -1 = off
	ErrorSticky bool // every write from ErrorAt on fails (disk full)
	seen        int
	Fired       map[string]int
}

// ErrInjected is the injected I/O error.
var ErrInjected = errors.New("simkv: injected I/O error (disk full)")

// ErrClosed is returned by a store that was closed or whose process crashed.
var ErrClosed = errors.New("simkv: store closed")

// NewDisk makes an empty disk.
func NewDisk() *Disk {
	return &Disk{Faults: Faults{CrashBefore: -1, ErrorAt: -1, Fired: map[string]int{}}, BulkSetErrorAt: -1}
}

// Arm installs a fault plan; the write counter starts at zero.
func (d *Disk) Arm(crashBefore, errorAt int, sticky bool) {
	d.mu.Lock()
	defer d.mu.Unlock()
	fired := d.Faults.Fired
	d.Faults = Faults{CrashBefore: crashBefore, ErrorAt: errorAt, ErrorSticky: sticky, Fired: fired}
	d.WLog = nil
}

// Disarm removes the fault plan and returns the number of top-level writes seen while armed.
func (d *Disk) Disarm() int {
	d.mu.Lock()
	defer d.mu.Unlock()
	n := d.Faults.seen
	fired := d.Faults.Fired
	d.Faults = Faults{CrashBefore: -1, ErrorAt: -1, Fired: fired}
	return n
}

// Clone copies the durable state (fault plan not copied).
func (d *Disk) Clone() *Disk {
	d.mu.Lock()
	defer d.mu.Unlock()
	n := NewDisk()
	n.data = d.data
	n.CommitOnError = d.CommitOnError
	return n
}

// Frozen reports whether a crash froze the disk.
func (d *Disk) Frozen() bool { d.mu.Lock(); defer d.mu.Unlock(); return d.frozen }

// Open returns a store handle on the disk. After a crash, Open starts a new
// incarnation: handles of the previous one can no longer write.
func (d *Disk) Open() *Store {
	d.mu.Lock()
	defer d.mu.Unlock()
	d.frozen = false
	d.gen++
	return &Store{d: d, gen: d.gen}
}

// Dump returns all keys (diagnostics, raw consistency checks).
func (d *Disk) Dump() [][2][]byte {
	d.mu.Lock()
	defer d.mu.Unlock()
	out := make([][2][]byte, len(d.data))
	for i, e := range d.data {
		out[i] = [2][]byte{e.k, e.v}
	}
	return out
}

// Len is the number of keys.
func (d *Disk) Len() int { d.mu.Lock(); defer d.mu.Unlock(); return len(d.data) }

// Digest is a fingerprint of the durable state.
func (d *Disk) Digest() uint64 {
	d.mu.Lock()
	defer d.mu.Unlock()
	var h uint64 = 1469598103934665603
	for _, e := range d.data {
		for _, b := range e.k {
			h = (h ^ uint64(b)) * 1099511628211
		}
		h = (h ^ 0xff) * 1099511628211
		for _, b := range e.v {
			h = (h ^ uint64(b)) * 1099511628211
		}
		h = (h ^ 0xfe) * 1099511628211
	}
	return h
}

type wop struct {
	del    bool
	prefix bool
	k, v   []byte
}

func find(data []entry, k []byte) (int, bool) {
	i := sort.Search(len(data), func(i int) bool { return bytes.Compare(data[i].k, k) >= 0 })
	return i, i < len(data) && bytes.Equal(data[i].k, k)
}

func applyOps(data []entry, ops []wop) []entry {
	if len(ops) == 0 {
		return data
	}
	if len(ops) == 1 && !ops[0].prefix {
		o := ops[0]
		i, ok := find(data, o.k)
		if o.del {
			if !ok {
				return data
			}
			n := make([]entry, 0, len(data)-1)
			n = append(n, data[:i]...)
			return append(n, data[i+1:]...)
		}
		n := make([]entry, 0, len(data)+1)
		n = append(n, data[:i]...)
		n = append(n, entry{o.k, o.v})
		if ok {
			return append(n, data[i+1:]...)
		}
		return append(n, data[i:]...)
	}
	m := make(map[string][]byte, len(data)+len(ops))
	for _, e := range data {
		m[string(e.k)] = e.v
	}
	for _, o := range ops {
		switch {
		case o.prefix:
			for k := range m {
				if bytes.HasPrefix([]byte(k), o.k) {
					delete(m, k)
				}
			}
		case o.del:
			delete(m, string(o.k))
		default:
			m[string(o.k)] = o.v
		}
	}
	n := make([]entry, 0, len(m))
	for k, v := range m {
		n = append(n, entry{[]byte(k), v})
	}
	sort.Slice(n, func(i, j int) bool { return bytes.Compare(n[i].k, n[j].k) < 0 })
	return n
}

func cp(b []byte) []byte {
	if b == nil {
		return []byte{}
	}
	return append([]byte{}, b...)
}

// Store is one open handle (one process incarnation).
type Store struct {
	d      *Disk
	gen    int
	closed bool
}

var _ kvi.KVInterface = (*Store)(nil)

func (s *Store) snapshot() []entry {
	s.d.mu.Lock()
	defer s.d.mu.Unlock()
	return s.d.data
}

// commit applies one atomic top-level write, consulting the fault plan.
func (s *Store) commit(what string, ops []wop) error {
	d := s.d
	d.mu.Lock()
	if s.closed || d.frozen || s.gen != d.gen {
		d.mu.Unlock()
		return ErrClosed
	}
	k := d.Faults.seen
	d.Faults.seen++
	if d.LogOn {
		d.WLog = append(d.WLog, what)
	}
	if d.Faults.CrashBefore >= 0 && k == d.Faults.CrashBefore {
		d.frozen = true
		d.Faults.Fired["crash_before_write"]++
		d.mu.Unlock()
		// Freezing the disk already yields exactly the durable state of a crash
		// at this point (every later write of this incarnation fails); under an
		// active scheduler the simulated process is also stopped at once.
		if sim := simrt.Current(); sim != nil && simrt.Active() {
			sim.Crash("crash before top-level write " + fmt.Sprint(k) + ": " + what)
		}
		return ErrClosed
	}
	if d.Faults.ErrorAt >= 0 && (k == d.Faults.ErrorAt || (d.Faults.ErrorSticky && k > d.Faults.ErrorAt)) {
		d.Faults.Fired["write_error"]++
		d.mu.Unlock()
		return ErrInjected
	}
	d.data = applyOps(d.data, ops)
	d.Writes++
	d.mu.Unlock()
	return nil
}

func (s *Store) HasKey(key []byte) bool {
	simrt.Yield("simkv:HasKey")
	_, ok := find(s.snapshot(), key)
	return ok
}

func (s *Store) Set(key, value []byte) error {
	simrt.Yield("simkv:Set")
	return s.commit("Set "+fmtKey(key), []wop{{k: cp(key), v: cp(value)}})
}

func (s *Store) Get(key []byte) ([]byte, error) {
	simrt.Yield("simkv:Get")
	data := s.snapshot()
	if i, ok := find(data, key); ok {
		return cp(data[i].v), nil
	}
	return nil, fmt.Errorf("key not found")
}

func (s *Store) Delete(key []byte) error {
	simrt.Yield("simkv:Delete")
	return s.commit("Delete "+fmtKey(key), []wop{{del: true, k: cp(key)}})
}

func (s *Store) DeletePrefix(prefix []byte) error {
	simrt.Yield("simkv:DeletePrefix")
	return s.commit("DeletePrefix "+fmtKey(prefix), []wop{{del: true, prefix: true, k: cp(prefix)}})
}

func (s *Store) Close() error {
	s.closed = true
	return nil
}

func (s *Store) View(f func(it kvi.KVIterator) error) error {
	simrt.Yield("simkv:View")
	it := &iter{data: s.snapshot(), pos: -1}
	return f(it)
}

func (s *Store) Update(f func(tx kvi.KVTransaction) error) error {
	simrt.Yield("simkv:Update")
	// serialisable: one read-write transaction at a time
	simrt.Lock("simkv:Update:txlock", &s.d.updLock)
	defer s.d.updLock.Unlock()
	tx := &txn{base: s.snapshot()}
	if err := f(tx); err != nil {
		return err
	}
	if len(tx.ops) == 0 {
		return nil
	}
	return s.commit(fmt.Sprintf("Update(%d ops)", len(tx.ops)), tx.ops)
}

func (s *Store) BulkWrite(f func(bl kvi.KVBulkWrite) error) error {
	simrt.Yield("simkv:BulkWrite")
	bw := &bulk{d: s.d}
	err := f(bw)
	// Badger and Bolt (the default and the embedded fallback) discard the
	// batch when the callback reports an error; Pebble and LevelDB commit it
	// regardless. CommitOnError selects the second behaviour (a per-run
	// configuration knob). The flush is one atomic write here.
	if err != nil && !s.d.CommitOnError {
		return err
	}
	if len(bw.ops) > 0 {
		if cerr := s.commit(fmt.Sprintf("BulkWrite(%d ops)", len(bw.ops)), bw.ops); cerr != nil {
			return cerr
		}
	}
	return err
}

type bulk struct {
	d   *Disk
	mu  sync.Mutex
	ops []wop
}

func (b *bulk) Set(key, value []byte) error {
	if d := b.d; d != nil {
		d.mu.Lock()
		n := d.bulkSets
		d.bulkSets++
		hit := d.BulkSetErrorAt >= 0 && n == d.BulkSetErrorAt
		if hit {
			d.Faults.Fired["bulk_set_error"]++
		}
		d.mu.Unlock()
		if hit {
			return ErrInjected
		}
	}
	b.mu.Lock()
	b.ops = append(b.ops, wop{k: cp(key), v: cp(value)})
	b.mu.Unlock()
	return nil
}

type txn struct {
	base []entry
	ops  []wop
}

func (t *txn) cur() []entry { return applyOps(t.base, t.ops) }

func (t *txn) compact() {
	if len(t.ops) > 16 {
		t.base = applyOps(t.base, t.ops)
		// keep ops for commit: commit applies them on the live data
	}
}

func (t *txn) Get(key []byte) ([]byte, error) {
	data := t.cur()
	if i, ok := find(data, key); ok {
		return cp(data[i].v), nil
	}
	return nil, fmt.Errorf("key not found")
}

func (t *txn) HasKey(key []byte) bool {
	_, ok := find(t.cur(), key)
	return ok
}

func (t *txn) Set(key, value []byte) error {
	t.ops = append(t.ops, wop{k: cp(key), v: cp(value)})
	return nil
}

func (t *txn) Delete(key []byte) error {
	t.ops = append(t.ops, wop{del: true, k: cp(key)})
	return nil
}

func (t *txn) View(f func(it kvi.KVIterator) error) error {
	return f(&iter{data: t.cur(), pos: -1})
}

type iter struct {
	data []entry
	pos  int
	rev  bool
}

func (it *iter) Seek(k []byte) error {
	it.rev = false
	it.pos = sort.Search(len(it.data), func(i int) bool { return bytes.Compare(it.data[i].k, k) >= 0 })
	return nil
}

// SeekReverse positions at the largest key <= k and iterates downwards.
func (it *iter) SeekReverse(k []byte) error {
	it.rev = true
	i := sort.Search(len(it.data), func(i int) bool { return bytes.Compare(it.data[i].k, k) > 0 })
	it.pos = i - 1
	return nil
}

func (it *iter) Valid() bool { return it.pos >= 0 && it.pos < len(it.data) }

func (it *iter) Key() []byte {
	if !it.Valid() {
		return nil
	}
	return cp(it.data[it.pos].k)
}

func (it *iter) Value() ([]byte, error) {
	if !it.Valid() {
		return nil, fmt.Errorf("iterator not valid")
	}
	return cp(it.data[it.pos].v), nil
}

func (it *iter) Next() error {
	if it.rev {
		it.pos--
	} else {
		it.pos++
	}
	return nil
}

func (it *iter) Get(key []byte) ([]byte, error) {
	if i, ok := find(it.data, key); ok {
		return cp(it.data[i].v), nil
	}
	return nil, fmt.Errorf("key not found")
}

func fmtKey(k []byte) string {
	b := make([]byte, 0, len(k))
	for _, c := range k {
		switch {
		case c == 0:
			b = append(b, '|')
		case c < 32 || c > 126:
			b = append(b, fmt.Sprintf("\\x%02x", c)...)
		default:
			b = append(b, c)
		}
	}
	return string(b)
}

// FmtKey renders a key for diagnostics.
func FmtKey(k []byte) string { return fmtKey(k) }
